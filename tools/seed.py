#!/usr/bin/env python3
"""Seeded changes (realistic breaking changes produced by independent sub-agents).

  seed.py import <worktree> <name> <property>   confirm the change in its scratch worktree (existing tests pass, the
                                                 demonstration fails with the change and passes without) and store it
                                                 under /verif/seeded/<name>/ (patch.diff, demo, meta.json)
  seed.py run <name> [<check> ...]               apply the patch to /repo, run the checks (quick), undo, record results
"""
import json
import os
import subprocess
import sys
import time

VERIF = os.path.dirname(os.path.dirname(os.path.abspath(__file__)))
SEEDED = os.path.join(VERIF, "seeded")


def sh(cmd, cwd=None, env=None, timeout=3600):
    e = dict(os.environ)
    e.update(env or {})
    p = subprocess.run(cmd, shell=True, cwd=cwd, env=e, stdout=subprocess.PIPE, stderr=subprocess.STDOUT, text=True,
                       timeout=timeout)
    return p.returncode, p.stdout


def do_import(wt, name, prop):
    d = os.path.join(SEEDED, name)
    os.makedirs(d, exist_ok=True)
    env = {"CARGO_TARGET_DIR": os.path.join(wt, "target"), "CARGO_NET_OFFLINE": "true"}
    rc, diff = sh("git diff -- src Cargo.toml", cwd=wt)
    if not diff.strip():
        print("no source change in", wt)
        return 2
    open(os.path.join(d, "patch.diff"), "w").write(diff)
    demo = os.path.join(wt, "tests", "demo_mutant.rs")
    if os.path.exists(demo):
        open(os.path.join(d, "demo_mutant.rs"), "w").write(open(demo).read())
    if os.path.exists(os.path.join(wt, "MUTANT.md")):
        open(os.path.join(d, "MUTANT.md"), "w").write(open(os.path.join(wt, "MUTANT.md")).read())
    ran = []
    # 1. the existing suite passes with the change (the demo is moved away meanwhile)
    rc1, out1 = sh("mv tests/demo_mutant.rs /tmp/demo_%s.rs; cargo test --workspace --no-fail-fast --offline 2>&1 | "
                   "grep -E '^test result|FAILED|error(\\[|:)' | head -5; mv /tmp/demo_%s.rs tests/demo_mutant.rs" % (name, name),
                   cwd=wt, env=env)
    suite_ok = "57 passed; 0 failed" in out1
    ran.append({"cmd": "cargo test --workspace --no-fail-fast --offline (with the change)", "ok": suite_ok, "out": out1[-400:]})
    # 2. the demo fails with the change
    rc2, out2 = sh("cargo test --offline --test demo_mutant 2>&1 | grep -E '^test result|^test .* (ok|FAILED)|error(\\[|:)' | tail -12",
                   cwd=wt, env=env)
    fails = "FAILED" in out2 or "failed" in out2
    ran.append({"cmd": "cargo test --offline --test demo_mutant (with the change)", "fails": fails, "out": out2[-600:]})
    # 3. the demo passes without the change
    patch = os.path.join(d, "patch.diff")
    sh("git apply -R %s" % patch, cwd=wt)      # (git stash is shared between worktrees - not used)
    try:
        rc3, out3 = sh("cargo test --offline --test demo_mutant 2>&1 | grep -E '^test result|^test .* (ok|FAILED)|error(\\[|:)' | tail -12",
                       cwd=wt, env=env)
    finally:
        sh("git apply %s" % patch, cwd=wt)
    passes = "FAILED" not in out3 and "test result: ok" in out3
    ran.append({"cmd": "cargo test --offline --test demo_mutant (original source)", "passes": passes, "out": out3[-600:]})
    meta = {"name": name, "property": prop, "confirmed": bool(suite_ok and fails and passes), "confirmation": ran,
            "needs": "see MUTANT.md", "imported_at": time.strftime("%Y-%m-%d %H:%M"), "checks": {}}
    mp = os.path.join(d, "meta.json")
    if os.path.exists(mp):
        old = json.load(open(mp))
        meta["checks"] = old.get("checks", {})
        meta["needs"] = old.get("needs", meta["needs"])
    json.dump(meta, open(mp, "w"), indent=1)
    print("imported", name, "confirmed =", meta["confirmed"], "| suite", suite_ok, "demo fails", fails, "demo passes w/o", passes)
    return 0 if meta["confirmed"] else 1


def do_run(name, checks):
    d = os.path.join(SEEDED, name)
    meta = json.load(open(os.path.join(d, "meta.json")))
    checks = checks or [meta["property"]]
    rc, out = sh("git status --short", cwd="/repo")
    if out.strip():
        print("/repo is not clean:", out)
        return 2
    pf = os.path.join(d, "patch.diff")
    rc, out = sh("git apply %s 2>&1 || git apply --3way %s 2>&1" % (pf, pf), cwd="/repo")
    rc, st = sh("git status --short", cwd="/repo")
    if not st.strip() or "UU " in st:
        sh("git checkout HEAD -- . ; git reset -q", cwd="/repo")
        print("patch did not apply:", out)
        return 2
    try:
        for c in checks:
            t0 = time.time()
            rc, out = sh("python3 tools/check.py %s --tier quick" % c, cwd=VERIF, timeout=3600)
            vio = [l for l in out.splitlines() if l.startswith("VIOLATION") or l.startswith("violation keys")]
            meta["checks"][c] = {"rc": rc, "detected": rc == 1, "lines": vio[:6], "wall_s": round(time.time() - t0, 1),
                                 "at": time.strftime("%Y-%m-%d %H:%M")}
            print("%s on seeded %s: rc=%d %s" % (c, name, rc, "DETECTED" if rc == 1 else "missed" if rc == 0 else "tool error"))
            for l in vio[:4]:
                print("   ", l[:200])
            if rc == 2:
                print(out[-800:])
    finally:
        sh("git reset -q; git checkout HEAD -- . ; git clean -fdq -- src tests", cwd="/repo")
    json.dump(meta, open(os.path.join(d, "meta.json"), "w"), indent=1)
    rc, st = sh("git status --short", cwd="/repo")
    if st.strip():
        print("WARNING /repo not clean after undo:", st)
    return 0


def do_runall():
    """re-runs every stored change against the check of its property (and the other checks recorded as detecting it)"""
    import glob
    bad = []
    for mp in sorted(glob.glob(os.path.join(SEEDED, "*", "meta.json"))):
        m = json.load(open(mp))
        checks = [m["property"]] + sorted(c for c, v in m.get("checks", {}).items() if v.get("detected") and c != m["property"])
        rc = do_run(m["name"], checks[:1])
        m = json.load(open(mp))
        if rc != 0 or not m["checks"].get(m["property"], {}).get("detected"):
            bad.append(m["name"])
    print("NOT DETECTED:", bad if bad else "none")
    return 1 if bad else 0


if __name__ == "__main__":
    if sys.argv[1] == "runall":
        sys.exit(do_runall())
    if sys.argv[1] == "import":
        sys.exit(do_import(sys.argv[2], sys.argv[3], sys.argv[4]))
    if sys.argv[1] == "run":
        sys.exit(do_run(sys.argv[2], sys.argv[3:]))
