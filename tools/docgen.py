"""Abstract SCXML documents: construction, families, rendering to SCXML text, export for TLC.

A document is built as a tree of Node objects and then `finish()`ed into the DocJSON form that the
TLA+ modules read (see spec/Sem.tla): state ids 1..n in document order (root = 1), transitions in
document order, executable content as blocks of uniform instruction records.
"""
import itertools
import json
import random
from xml.sax.saxutils import escape, quoteattr


# ---------------------------------------------------------------- abstract syntax helpers
def cond(op="true", s=0, n="", v=0):
    return {"op": op, "s": s, "n": n, "v": v}


TRUE = cond("true")


def expr(k="const", n="", v=0):
    return {"k": k, "n": n, "v": v}


def ins(op, tag="", ev=None, n="", e=None, br=None, els=0, blk=0, arr=None):
    return {"op": op, "tag": tag, "ev": ev or [], "n": n, "e": e or [], "br": br or [], "els": els,
            "blk": blk, "arr": arr or []}


def mark(tag, *es):
    return ins("mark", tag=tag, e=list(es))


def raise_(ev):
    return ins("raise", ev=ev.split(".") if isinstance(ev, str) else ev)


def assign(n, e):
    return ins("assign", n=n, e=[e])


def braise(ev, bound=5, var="x"):
    """bounded raise: if var < bound: var := var + 1; raise ev  -- keeps every macrostep finite"""
    return ins("if", br=[{"c": cond("lt", n=var, v=bound), "blk": [assign(var, expr("inc", var)), raise_(ev)]}])


class Trans:
    def __init__(self, ev=None, cond_=None, tgt=None, internal=False, body=None, kind="t"):
        self.ev = ev or []          # list of descriptors, each a list of tokens
        self.cond = cond_ or TRUE
        self.tgt = tgt or []        # list of Node
        self.internal = internal
        self.body = body            # list of instructions or None
        self.kind = kind            # "t" ordinary, "i" initial, "h" history default
        self.src = None
        self.id = 0
        self.spell = None           # optional literal spelling of the event attribute


class Node:
    def __init__(self, name, kind="state", htype=""):
        self.name = name
        self.kind = kind            # root/state/parallel/final/history
        self.htype = htype
        self.kids = []
        self.trans = []
        self.initial = None         # ("attr", [nodes]) | ("elem", Trans) | None (default)
        self.onentry = []           # list of blocks (each a list of instructions)
        self.onexit = []
        self.parent = None
        self.id = 0
        self.data = []              # (name, int) declared at this state
        self.donedata = None

    def add(self, child):
        child.parent = self
        self.kids.append(child)
        return child

    def t(self, ev=None, tgt=None, cond_=None, internal=False, body=None):
        if isinstance(ev, str):
            ev = [d.split(".") for d in ev.split()] if ev else []
        tr = Trans(ev, cond_, tgt if isinstance(tgt, list) or tgt is None else [tgt], internal, body)
        tr.src = self
        self.trans.append(tr)
        return tr


class Doc:
    """A finished document: .j is the DocJSON (for TLC), .xml() renders SCXML text."""

    def __init__(self, root, vars_=None, dm="rfsm-expression", binding="early", alphabet=None, auto_marks=True,
                 guards=True, family="", name="", in_marks=False):
        self.root = root
        self.vars = dict(vars_ or {"x": 0})
        self.dm = dm
        self.binding = binding
        self.auto_marks = auto_marks
        self.guards = guards
        self.family = family
        self.name = name
        self.in_marks = in_marks
        self.nodes = []
        self.trans = []
        self.blocks = []
        self._number(root)
        self._finish(alphabet)

    # -------------------------------------------------------------- numbering
    def _number(self, n):
        n.id = len(self.nodes) + 1
        self.nodes.append(n)
        for k in n.kids:
            k.parent = n
            self._number(k)

    def _block(self, instrs):
        """register a block (list of instructions, nested blocks given inline as lists) -> id"""
        out = []
        for i in instrs:
            i = dict(i)
            if i["op"] == "if":
                i["br"] = [{"c": b["c"], "blk": self._block(b["blk"]) if isinstance(b["blk"], list) else b["blk"]}
                           for b in i["br"]]
                if isinstance(i["els"], list):
                    i["els"] = self._block(i["els"])
            elif i["op"] == "foreach":
                if isinstance(i["blk"], list):
                    i["blk"] = self._block(i["blk"])
            out.append(i)
        self.blocks.append(out)
        return len(self.blocks)

    def _finish(self, alphabet):
        nodes = self.nodes
        am = self.auto_marks
        inm = [mark("in", *[expr("in", v=n.id) for n in nodes if n.kind not in ("root", "history")])] if self.in_marks else []
        # transitions in document order: per state in document order: (initial elem), ordinary ones
        for n in nodes:
            lst = []
            if n.kind == "history" and n.trans:
                n.trans[0].kind = "h"
            for tr in n.trans:
                tr.src = n
                lst.append(tr)
            if n.kind in ("root", "state") and any(k.kind != "history" for k in n.kids):
                if n.initial is None:
                    first = [k for k in n.kids if k.kind != "history"][0]
                    it = Trans(tgt=[first], kind="i")
                    it.default = True
                elif n.initial[0] == "attr":
                    it = Trans(tgt=list(n.initial[1]), internal=True, kind="i")
                else:
                    it = n.initial[1]
                    it.kind = "i"
                it.src = n
                n.init_t = it
                lst.append(it)
            else:
                n.init_t = None
            for tr in lst:
                tr.id = len(self.trans) + 1
                self.trans.append(tr)
        j = {"n": len(nodes), "name": [], "kind": [], "parent": [], "children": [], "hists": [], "htype": [],
             "init": [], "onentry": [], "onexit": [], "strans": [], "trans": [], "blocks": None, "vars": self.vars,
             "sdata": [], "donedata": [],
             "dm": self.dm, "binding": self.binding, "family": self.family}
        for n in nodes:
            j["name"].append(n.name)
            j["kind"].append(n.kind)
            j["parent"].append(n.parent.id if n.parent else 0)
            j["children"].append([k.id for k in n.kids if k.kind != "history"])
            j["hists"].append([k.id for k in n.kids if k.kind == "history"])
            j["htype"].append(n.htype)
            j["init"].append(n.init_t.id if n.init_t else 0)
            j["sdata"].append([{"n": k, "v": v} for (k, v) in (n.data if n.kind != "root" else [])])
            j["donedata"].append([{"n": k, "e": e} for (k, e) in (n.donedata or [])])
            one = []
            if am and n.kind not in ("root", "history"):
                one.append(self._block([mark("en:" + n.name)] + inm))
            for b in n.onentry:
                one.append(self._block(b))
            j["onentry"].append(one)
            oxe = []
            if am and n.kind not in ("root", "history"):
                oxe.append(self._block([mark("ex:" + n.name)] + inm))
            for b in n.onexit:
                oxe.append(self._block(b))
            j["onexit"].append(oxe)
            j["strans"].append([tr.id for tr in n.trans])
        evs = []
        for tr in self.trans:
            body = list(tr.body or [])
            renderable = not getattr(tr, "default", False) and not (tr.kind == "i" and tr.internal)
            if am and renderable:
                body = [mark("%s:%d" % (tr.kind, tr.id))] + inm + body
            tr.block = self._block(body) if body else 0
            j["trans"].append({"src": tr.src.id, "tgt": [x.id for x in tr.tgt], "ev": tr.ev, "cond": tr.cond,
                               "internal": bool(tr.internal), "block": tr.block, "kind": tr.kind})
            for dsc in tr.ev:
                if dsc != ["*"] and dsc not in evs:
                    evs.append(dsc)
        # events raised inside content are not part of the host alphabet by default
        if alphabet is None:
            alphabet = evs[:3] + [["zz"]]
        j["alphabet"] = [a.split(".") if isinstance(a, str) else a for a in alphabet]
        j["blocks"] = self.blocks
        self.j = j
        self.ids = {n.name: n.id for n in nodes}

    # -------------------------------------------------------------- rendering
    def _cond_text(self, c, gk=None):
        names = self.j["name"]
        op = c["op"]
        if op == "true":
            return None
        if op == "false":
            t = "false"
        elif op == "in":
            t = "In('%s')" % names[c["s"] - 1]
        elif op == "notin":
            t = "!In('%s')" % names[c["s"] - 1]
        elif op == "lt":
            t = "%s < %d" % (c["n"], c["v"])
        elif op == "ge":
            t = "%s >= %d" % (c["n"], c["v"])
        elif op == "eq":
            t = "%s == %d" % (c["n"], c["v"])
        elif op == "err":
            # v = 1: an expression that does not even parse
            t = "nope_undefined.q" if not c.get("v") else "1 +"
        else:
            raise ValueError(op)
        if gk is not None and self.guards and self.dm != "null":
            return "g(%d, %s)" % (gk, t)
        return t

    def _expr_text(self, e):
        k = e["k"]
        if k == "const":
            return str(e["v"])
        if k == "var":
            return e["n"]
        if k == "inc":
            return "%s + 1" % e["n"]
        if k == "in":
            return "In('%s')" % self.j["name"][e["v"] - 1]
        if k == "err":
            # v = 1: an expression that does not even parse (syntax error instead of a failing evaluation)
            return "nope_undefined.q" if not e.get("v") else "1 +"
        raise ValueError(k)

    def _block_xml(self, bid, ind):
        out = []
        for i in self.blocks[bid - 1]:
            out.extend(self._ins_xml(i, ind))
        return out

    def _ins_xml(self, i, ind):
        p = " " * ind
        op = i["op"]
        if op == "mark":
            args = "".join(", " + self._expr_text(e) for e in i["e"])
            return [p + "<script>mark('%s'%s)</script>" % (i["tag"], escape(args))]
        if op == "raise":
            return [p + "<raise event=%s/>" % quoteattr(".".join(i["ev"]))]
        if op == "assign":
            return [p + "<assign location=%s expr=%s/>" % (quoteattr(i["n"]), quoteattr(self._expr_text(i["e"][0])))]
        if op == "log":
            return [p + "<log expr=%s/>" % quoteattr(self._expr_text(i["e"][0]))]
        if op == "script":
            return [p + "<script>%s</script>" % escape(self._expr_text(i["e"][0]))]
        if op == "if":
            out = []
            for k, b in enumerate(i["br"]):
                ct = self._cond_text(b["c"]) or "true"
                out.append(p + ("<if cond=%s>" if k == 0 else "<elseif cond=%s/>") % quoteattr(ct))
                out.extend(self._block_xml(b["blk"], ind + 1))
            if i["els"]:
                out.append(p + "<else/>")
                out.extend(self._block_xml(i["els"], ind + 1))
            out.append(p + "</if>")
            return out
        if op == "foreach":
            arr_text = self._expr_text(i["e"][0]) if i["e"] else "[" + ",".join(str(v) for v in i["arr"]) + "]"
            out = [p + "<foreach array=%s item=%s>" % (quoteattr(arr_text), quoteattr(i["n"]))]
            out.extend(self._block_xml(i["blk"], ind + 1))
            out.append(p + "</foreach>")
            return out
        if op == "send":
            if i["e"]:
                return [p + '<send eventexpr=%s target="#_internal"/>' % quoteattr(self._expr_text(i["e"][0]))]
            return [p + '<send event=%s target="#_internal"/>' % quoteattr(".".join(i["ev"]))]
        if op == "xml":   # literal XML (platform features outside the abstract instruction set)
            return [p + i["tag"]]
        raise ValueError(op)

    def _trans_xml(self, tr, ind):
        p = " " * ind
        a = ""
        if tr.ev:
            sp = tr.spell if tr.spell is not None else " ".join(".".join(d) for d in tr.ev)
            a += " event=%s" % quoteattr(sp)
        ct = self._cond_text(tr.cond, gk=tr.id)
        if ct is not None:
            a += " cond=%s" % quoteattr(ct)
        if tr.tgt:
            a += " target=%s" % quoteattr(" ".join(x.name for x in tr.tgt))
        if tr.internal:
            a += ' type="internal"'
        if tr.block:
            return [p + "<transition%s>" % a] + self._block_xml(tr.block, ind + 1) + [p + "</transition>"]
        return [p + "<transition%s/>" % a]

    def _node_xml(self, n, ind):
        p = " " * ind
        j = self.j
        tag = {"state": "state", "parallel": "parallel", "final": "final", "history": "history"}[n.kind]
        a = " id=%s" % quoteattr(n.name)
        if n.kind == "history":
            a += ' type="%s"' % (n.htype or "shallow")
        if n.initial is not None and n.initial[0] == "attr":
            a += " initial=%s" % quoteattr(" ".join(x.name for x in n.initial[1]))
        out = [p + "<%s%s>" % (tag, a)]
        if n.data:
            out.append(p + " <datamodel>" + "".join('<data id=%s expr="%d"/>' % (quoteattr(k), v) for k, v in n.data)
                       + "</datamodel>")
        for b in j["onentry"][n.id - 1]:
            out += [p + " <onentry>"] + self._block_xml(b, ind + 2) + [p + " </onentry>"]
        for b in j["onexit"][n.id - 1]:
            out += [p + " <onexit>"] + self._block_xml(b, ind + 2) + [p + " </onexit>"]
        for tr in n.trans:
            out += self._trans_xml(tr, ind + 1)
        if n.initial is not None and n.initial[0] == "elem":
            out += [p + " <initial>"] + self._trans_xml(n.initial[1], ind + 2) + [p + " </initial>"]
        if n.donedata:
            out.append(p + " <donedata>" + "".join("<param name=%s expr=%s/>" % (quoteattr(k), quoteattr(self._expr_text(e)))
                                                     for k, e in n.donedata) + "</donedata>")
        for x in getattr(n, "extra_xml", []):
            out.append(p + " " + x)
        for k in n.kids:
            out += self._node_xml(k, ind + 1)
        out.append(p + "</%s>" % tag)
        return out

    def xml(self):
        r = self.root
        a = ' xmlns="http://www.w3.org/2005/07/scxml" version="1.0" datamodel="%s"' % self.dm
        if self.binding != "early":
            a += ' binding="%s"' % self.binding
        if self.name:
            a += " name=%s" % quoteattr(self.name)
        if r.initial is not None and r.initial[0] == "attr":
            a += " initial=%s" % quoteattr(" ".join(x.name for x in r.initial[1]))
        out = ["<scxml%s>" % a]
        if self.vars and self.dm != "null":
            out.append(" <datamodel>" + "".join('<data id=%s expr="%d"/>' % (quoteattr(k), v)
                                                  for k, v in self.vars.items()) + "</datamodel>")
        for x in getattr(r, "extra_xml", []):
            out.append(" " + x)
        for k in r.kids:
            out += self._node_xml(k, 1)
        out.append("</scxml>")
        return "\n".join(out)

    def tid_of(self, state_name, kind, idx):
        """(state name, 't'|'i', index) as reported by the harness -> document transition id"""
        n = self.nodes[self.ids[state_name] - 1] if state_name in self.ids else self.root
        if kind == "i":
            return n.init_t.id
        return n.trans[idx].id


# ---------------------------------------------------------------- families
def S(name, *kids, **kw):
    n = Node(name, kw.get("kind", "state"), kw.get("htype", ""))
    for k in kids:
        n.add(k)
    return n


def P(name, *kids):
    return S(name, *kids, kind="parallel")


def F(name):
    return Node(name, "final")


def H(name, deep=False):
    return Node(name, "history", "deep" if deep else "shallow")


def ROOT(*kids):
    return S("root", *kids, kind="root")


def shape_docs():
    """F-shape: hand-written templates of the known-difficult shapes (see DESIGN 2.2)."""
    docs = []

    def add(root, name, **kw):
        docs.append(Doc(root, family="shape", name=name, **kw))

    # 1. parallel with two regions, transitions inside each region and one leaving the parallel
    a1, a2, b1, b2 = S("a1"), S("a2"), S("b1"), S("b2")
    ra, rb = S("ra", a1, a2), S("rb", b1, b2)
    p = P("p", ra, rb)
    out = S("out")
    a1.t("e1", a2)
    b1.t("e1", b2)
    a2.t("e2", out)
    b2.t("e2", b1)
    out.t("e1", p)
    add(ROOT(p, out), "par-two-regions")

    # 2. conflict: both regions want to leave the parallel on the same event (pre-emption by document order)
    a1, b1 = S("a1"), S("b1")
    ra, rb = S("ra", a1), S("rb", b1)
    p = P("p", ra, rb)
    o1, o2 = S("o1"), S("o2")
    a1.t("e1", o1)
    b1.t("e1", o2)
    o1.t("e2", p)
    o2.t("e2", p)
    add(ROOT(p, o1, o2), "par-preempt-docorder")

    # 3. conflict with descendant exception: ancestor transition vs descendant transition
    a1, a2, b1, b2 = S("a1"), S("a2"), S("b1"), S("b2")
    ra, rb = S("ra", a1, a2), S("rb", b1, b2)
    p = P("p", ra, rb)
    o = S("o")
    p.t("e1", o)            # selected by both atomic states through their ancestor p (same transition)
    a1.t("e2", a2)
    rb.t("e2", o)           # leaves the parallel: conflicts with a1's e2; a1 earlier in document order wins
    b1.t("e1", b2)          # descendant of p: selected for b1 instead of p's
    o.t("e1", p)
    add(ROOT(p, o), "par-ancestor-vs-descendant")

    # 4. internal vs external transitions with descendant targets
    c1, c2 = S("c1"), S("c2")
    c = S("c", c1, c2)
    c.t("e1", c2, internal=True)
    c.t("e2", c2, internal=False)
    c2.t("e3", c1)
    add(ROOT(c), "internal-external")

    # 5. targetless transitions with content, and pre-emption of ancestors by first match in document order
    d1, d2 = S("d1"), S("d2")
    dd = S("d", d1, d2)
    d1.t("e1", None, body=[raise_("r1")])
    d1.t("e1", d2)          # never taken: first in document order wins
    dd.t("r1", d2)
    d2.t("e2", d1)
    dd.t("e2", None)        # never reached from d2 (d2 handles e2), reached from d1
    add(ROOT(dd), "targetless-first-match")

    # 6. multi-target transition into several regions of a parallel
    a1, a2, b1, b2 = S("a1"), S("a2"), S("b1"), S("b2")
    ra, rb = S("ra", a1, a2), S("rb", b1, b2)
    p = P("p", ra, rb)
    s0 = S("s0")
    s0.t("e1", [a2, b2])
    s0.t("e2", [b2])
    a2.t("e2", s0)
    b1.t("e1", s0)
    add(ROOT(s0, p), "multi-target")

    # 7. nested parallel inside a region, transition from inner atomic to a sibling region's state (cross region)
    i1, i2 = S("i1"), S("i2")
    ip = P("ip", S("ia", i1), S("ib", i2))
    x1, x2 = S("x1"), S("x2")
    rx = S("rx", x1, x2)
    op = P("op", S("ry", ip), rx)
    i1.t("e1", x2)          # cross-region target: leaves and re-enters op
    x1.t("e2", x2)
    i2.t("e2", i1)
    add(ROOT(op), "cross-region")

    # 8. eventless chains guarded by a counter, raise in onentry
    k1, k2, k3 = S("k1"), S("k2"), S("k3")
    k1.onentry.append([assign("x", expr("inc", "x"))])
    k1.t(None, k2, cond_=cond("lt", n="x", v=3))
    k2.t(None, k1)
    k1.t("e1", k3)
    k3.onentry.append([raise_("r1"), raise_("r2")])
    k3.t("r2", k1)          # r1 must be consumed (no-op) before r2
    k3.t("e2", k1)
    add(ROOT(k1, k2, k3), "eventless-counter")

    # 9. finals: compound with final child, parallel with finals in all regions, top-level final
    f1, f2 = F("f1"), F("f2")
    g1, g2 = S("g1"), S("g2")
    ra, rb = S("ra", g1, f1), S("rb", g2, f2)
    p = P("p", ra, rb)
    g1.t("e1", f1)
    g2.t("e2", f2)
    g2.t("e1", None)
    top = F("top")
    w = S("w", p)
    w.t("done.state.p", top)
    w.t("done.state.ra", None, body=[mark("done-ra")])
    add(ROOT(w, top), "finals", alphabet=["e1", "e2", "zz"])

    # 10. shallow and deep history
    m1, m2, m21, m22 = S("m1"), S("m2"), S("m21"), S("m22")
    m2.add(m21)
    m2.add(m22)
    hs, hd = H("hs"), H("hd", deep=True)
    m = S("m", hs, hd, m1, m2)
    hs.t(None, m1)
    hd.t(None, m22)
    o = S("o")
    m1.t("e1", m22)
    m21.t("e1", m22)
    m.t("e2", o)
    o.t("e1", hs)
    o.t("e2", hd)
    o.t("e3", m)
    add(ROOT(m, o), "history", alphabet=["e1", "e2", "e3"])

    # 11. history inside a parallel region, re-entry through the history of a region
    q1, q2, r1, r2 = S("q1"), S("q2"), S("r1"), S("r2")
    hq = H("hq")
    rq, rr = S("rq", hq, q1, q2), S("rr", r1, r2)
    hq.t(None, q2)
    p = P("p", rq, rr)
    o = S("o")
    q1.t("e1", q2)
    q2.t("e1", q1)
    r1.t("e1", r2)
    p.t("e2", o)
    o.t("e1", hq)
    o.t("e2", p)
    add(ROOT(p, o), "history-in-parallel")

    # 12. initial element with content, initial attribute with deep target
    n1, n2, n21 = S("n1"), S("n2"), S("n21")
    n2.add(n21)
    nn = S("n", n1, n2)
    nn.initial = ("elem", Trans(tgt=[n21]))
    o = S("o")
    o.t("e1", nn)
    n21.t("e1", o)
    n21.t("e2", n1)
    n1.t("e2", o)
    r = ROOT(o, nn)
    r.initial = ("attr", [nn])
    add(r, "initial-forms")

    # 13. In() guards across regions
    a1, a2, b1, b2 = S("a1"), S("a2"), S("b1"), S("b2")
    ra, rb = S("ra", a1, a2), S("rb", b1, b2)
    p = P("p", ra, rb)
    docs_tmp = Doc(ROOT(p))  # to get ids
    a1.t("e1", a2, cond_=cond("in", s=docs_tmp.ids["b2"]))
    a1.t("e2", a2, cond_=cond("notin", s=docs_tmp.ids["b2"]))
    b1.t("e1", b2)
    a2.t("e1", a1, cond_=cond("in", s=docs_tmp.ids["b2"]))
    b2.t("e2", b1)
    add(ROOT(p), "in-guards")

    # 14. transition body raising events that are handled by a different region
    a1, a2, b1, b2 = S("a1"), S("a2"), S("b1"), S("b2")
    ra, rb = S("ra", a1, a2), S("rb", b1, b2)
    p = P("p", ra, rb)
    a1.t("e1", a2, body=[raise_("r1")])
    b1.t("r1", b2, body=[raise_("r2")])
    a2.t("r2", a1)
    b2.t("e2", b1)
    b2.onexit.append([raise_("r3")])
    a1.t("r3", None)
    add(ROOT(p), "raise-across-regions")
    return docs


def history_docs():
    """history-focused templates (C06)"""
    docs = []

    def add(root, name, **kw):
        docs.append(Doc(root, family="hist", name=name, **kw))

    for deep in (False, True):
        # nested two levels: m{ h, a{a1,a2}, b{b1,b2{b21,b22}} }, leave from several places, re-enter via h / m / deeper
        a1, a2, b1, b21, b22 = S("a1"), S("a2"), S("b1"), S("b21"), S("b22")
        b2 = S("b2", b21, b22)
        a, b = S("a", a1, a2), S("b", b1, b2)
        h = H("h", deep=deep)
        m = S("m", h, a, b)
        h.t(None, b1, body=[mark("hdef")])
        o = S("o")
        a1.t("e1", a2)
        a2.t("e1", b22)
        b22.t("e1", b1)
        b1.t("e1", a1)
        m.t("e2", o)
        o.t("e1", h)
        o.t("e2", m)
        o.t("e3", b21)
        add(ROOT(m, o), "nested-%s" % ("deep" if deep else "shallow"), alphabet=["e1", "e2", "e3"])

    # two history states in the same parent (shallow + deep), defaults with content, default target deeper than child
    c1, c2, c21, c22 = S("c1"), S("c2"), S("c21"), S("c22")
    c2.add(c21)
    c2.add(c22)
    hs, hd = H("hs"), H("hd", deep=True)
    c = S("c", c1, hs, c2, hd)
    hs.t(None, c2, body=[mark("hs-def")])
    hd.t(None, c22, body=[mark("hd-def")])
    o = S("o")
    c1.t("e1", c21)
    c21.t("e1", c22)
    c22.t("e1", c1)
    c.t("e2", o)
    o.t("e1", hs)
    o.t("e2", hd)
    o.t("e3", [hs])
    r = ROOT(o, c)
    add(r, "two-histories", alphabet=["e1", "e2", "e3"])

    # history of a parallel state (deep): restores all regions
    for deep in (False, True):
        q1, q2, r1, r2, r21 = S("q1"), S("q2"), S("r1"), S("r2"), S("r21")
        r2.add(r21)
        rq, rr = S("rq", q1, q2), S("rr", r1, r2)
        hp = H("hp", deep=deep)
        p = P("p", hp, rq, rr)
        hp.t(None, [q2, r21] if deep else [rq])
        o = S("o")
        q1.t("e1", q2)
        r1.t("e1", r21)
        q2.t("e3", q1)
        p.t("e2", o)
        o.t("e1", hp)
        o.t("e2", p)
        o.t("e3", [q2])
        add(ROOT(p, o), "parallel-%s" % ("deep" if deep else "shallow"), alphabet=["e1", "e2", "e3"])

    # history inside a region that is left by a transition from the *other* region; re-entry through history
    # while the parallel is re-entered by default in the other region
    q1, q2, r1, r2 = S("q1"), S("q2"), S("r1"), S("r2")
    hq = H("hq", deep=True)
    rq, rr = S("rq", q1, q2, hq), S("rr", r1, r2)
    hq.t(None, q1)
    p = P("p", rq, rr)
    o = S("o")
    q1.t("e1", q2)
    r1.t("e1", r2)
    r2.t("e2", o)
    r1.t("e3", o)
    o.t("e1", hq)
    o.t("e2", [hq, r2])
    o.t("e3", p)
    add(ROOT(p, o), "region-history", alphabet=["e1", "e2", "e3"])

    # deep history of a compound state ABOVE a parallel: the recorded value spans the regions
    for nested in (False, True):
        a1, a2, b1, b2, c1, c2 = S("a1"), S("a2"), S("b1"), S("b2"), S("c1"), S("c2")
        r1, r2, r3 = S("r1", a1, a2), S("r2", b1, b2), S("r3", c1, c2)
        q = P("q", r1, r2, r3)
        hp = H("hp", deep=True)
        hs = H("hs")
        inner = S("w", q) if nested else q
        pp = S("pp", hp, hs, inner, S("alt"))
        hp.t(None, a2)
        hs.t(None, pp.kids[-1])
        o = S("o")
        a1.t("e1", a2)
        b1.t("e2", b2)
        c1.t("e1", c2, cond_=cond("in", s=0))    # placeholder, fixed below
        pp.t("e3", o)
        o.t("e1", hp)
        o.t("e2", hs)
        o.t("e3", [b2])
        tmp = Doc(ROOT(pp, o))
        c1.trans[0].cond = cond("in", s=tmp.ids["b2"])
        add(ROOT(pp, o), "deep-above-parallel" + ("-nested" if nested else ""), alphabet=["e1", "e2", "e3"])

    # a transition from inside a state to that state's own history (the owner is a parallel or a compound state, the
    # transition external or internal): the domain of the transition must be the one its exit set was computed with, and
    # states that stay active are not entered again
    for owner_par in (True, False):
        for deep in (True, False):
            for internal in (False, True):
                q1, q2 = S("q1"), S("q2")
                q = S("q", q1, q2)
                hq = H("hq", deep=deep)
                hq.t(None, q)
                q1.t("e1", hq, internal=internal)
                q1.t("e3", q2)
                q2.t("e1", hq, internal=internal)
                if owner_par:
                    r1 = S("r1")
                    own = P("own", hq, q, S("rr", r1))
                else:
                    own = S("own", hq, q)
                own.t("e2", own)
                add(ROOT(own), "own-history-%s-%s-%s" % ("par" if owner_par else "cmp", "deep" if deep else "shallow", "int" if internal else "ext"),
                    alphabet=["e1", "e2", "e3"])

    # history as initial target and as target of an internal transition of the parent
    k1, k2, k3 = S("k1"), S("k2"), S("k3")
    hk = H("hk")
    k = S("k", hk, k1, k2, k3)
    hk.t(None, k2)
    k.initial = ("attr", [hk])
    o = S("o")
    k1.t("e1", k3)
    k2.t("e1", k1)
    k3.t("e1", k2)
    k.t("e2", o)
    k.t("e3", hk, internal=True)
    o.t("e1", k)
    o.t("e2", hk)
    r = ROOT(k, o)
    add(r, "history-initial", alphabet=["e1", "e2", "e3"])

    # deep history reached *indirectly* (default initial target of its parent, as attribute or <initial> element, or default
    # target of another history) while the recorded state lies two levels below the parent
    for form in ("attr", "elem", "via-history"):
        m1, m2 = S("dm1"), S("dm2")
        m = S("dm", m1, m2)
        da = S("da")
        hd = H("hd", deep=True)
        hs = H("hs")
        dp = S("dp", hd, hs, da, m)
        hd.t(None, da)
        hs.t(None, hd)
        if form == "attr":
            dp.initial = ("attr", [hd])
        elif form == "elem":
            dp.initial = ("elem", Trans(tgt=[hd]))
        else:
            dp.initial = ("attr", [hs])
        do = S("do")
        da.t("e1", m2)
        m1.t("e1", da)
        m2.t("e1", m1)
        dp.t("e2", do)
        do.t("e1", dp)
        do.t("e2", hd)
        do.t("e3", m)
        add(ROOT(dp, do), "history-initial-deep-%s" % form, alphabet=["e1", "e2", "e3"])
    return docs


def final_docs():
    """final states / done events / shutdown (C07)"""
    docs = []

    def add(root, name, **kw):
        docs.append(Doc(root, family="final", name=name, **kw))

    # compound with two finals, done.state handled by parent and by grandparent
    f1, f2 = F("f1"), F("f2")
    u1 = S("u1")
    u = S("u", u1, f1, f2)
    u1.t("e1", f1)
    u1.t("e2", f2)
    w = S("w", u)
    w.t("done.state.u", None, body=[mark("w-done-u")])
    top = F("top")
    w.t("e3", top)
    add(ROOT(w, top), "two-finals", alphabet=["e1", "e2", "e3"])

    # parallel: three regions, finals reached in different orders; done.state.p exactly once per completion
    regs = []
    fins = []
    for i in (1, 2, 3):
        s, f = S("g%d" % i), F("ff%d" % i)
        s.t("e%d" % i, f)
        regs.append(S("reg%d" % i, s, f))
        fins.append(f)
    p = P("p", *regs)
    o = S("o")
    p.t("done.state.p", o, body=[mark("p-done")])
    p.t("done.state.reg1", None, body=[mark("reg1-done")])
    o.t("e1", p)
    top = F("top")
    o.t("e2", top)
    add(ROOT(p, o, top), "parallel-finals", alphabet=["e1", "e2", "e3"])

    # nested parallel: inner parallel completes -> done.state.inner region -> outer done
    a, fa = S("a"), F("fa")
    b, fb = S("b"), F("fb")
    a.t("e1", fa)
    b.t("e2", fb)
    ip = P("ip", S("ia", a, fa), S("ib", b, fb))
    c, fc = S("c"), F("fc")
    c.t("e3", fc)
    rx = S("rx", ip, F("fx"))
    rx.t("done.state.ip", rx.kids[1], body=[mark("ip-done")])
    ry = S("ry", c, fc)
    op = P("op", rx, ry)
    top = F("top")
    op.t("done.state.op", top, body=[mark("op-done")])
    add(ROOT(op, top), "nested-parallel-finals", alphabet=["e1", "e2", "e3"])

    # donedata: evaluated when the final state has been entered (after the transition content and the final's onentry),
    # again at every completion; the done event of a parallel carries none
    fd, fe = F("fd"), F("fe")
    fd.donedata = [("p1", expr("var", "x")), ("p2", expr("const", v=7)), ("p3", expr("inc", "x"))]
    fe.donedata = [("q", expr("in", v=0))]          # In('d1') at that moment (patched to the node id below)
    fd.onentry = [[assign("x", expr("inc", "x"))]]
    d1 = S("d1")
    d = S("d", d1, fd, fe)
    d1.t("e1", fd, body=[assign("x", expr("inc", "x"))])
    d1.t("e2", fe)
    wd = S("wd", d)
    wd.t("done.state.d", None, body=[mark("d-done", expr("var", "x"))])
    wd.t("e3", d1)
    topd = F("topd")
    wd.t("zz", topd)
    dd_doc_root = ROOT(wd, topd)
    docs.append(Doc(dd_doc_root, family="final", name="donedata", alphabet=["e1", "e2", "e3"]))
    fe.donedata = [("q", expr("in", v=d1.id))]
    docs[-1] = Doc(dd_doc_root, family="final", name="donedata", alphabet=["e1", "e2", "e3"])
    # donedata in parallel regions: each region's final has its own, the parallel's done event has none
    ra, fra, rb, frb = S("ra"), F("fra"), S("rb"), F("frb")
    fra.donedata = [("who", expr("const", v=1)), ("x", expr("var", "x"))]
    frb.donedata = [("who", expr("const", v=2)), ("x", expr("var", "x"))]
    ra.t("e1", fra, body=[assign("x", expr("inc", "x"))])
    rb.t("e2", frb, body=[assign("x", expr("inc", "x"))])
    rb.t("e1", frb, body=[assign("x", expr("inc", "x"))])
    pd = P("pd", S("rga", ra, fra), S("rgb", rb, frb))
    od = S("od")
    pd.t("done.state.pd", od, body=[mark("pd-done")])
    od.t("e3", pd)
    add(ROOT(pd, od), "donedata-parallel", alphabet=["e1", "e2", "e3"])

    # a parallel whose region is itself a parallel: outer done event needs the recursive isInFinalState
    a, fa, b, fb, s1, f1 = S("a"), F("fa"), S("b"), F("fb"), S("s1"), F("f1")
    a.t("e1", fa)
    b.t("e2", fb)
    s1.t("e3", f1)
    p2 = P("p2", S("r2a", a, fa), S("r2b", b, fb))
    pp = P("pp", S("r1", s1, f1), p2)
    top = F("top")
    w = S("w", pp)
    w.t("done.state.pp", top, body=[mark("pp-done")])
    w.t("done.state.p2", None, body=[mark("p2-done")])
    add(ROOT(w, top), "parallel-region-is-parallel", alphabet=["e1", "e2", "e3"])

    # three levels of parallels
    x, fx, y, fy, z, fz = S("x"), F("fx"), S("y"), F("fy"), S("z"), F("fz")
    x.t("e1", fx)
    y.t("e2", fy)
    z.t("e3", fz)
    p3 = P("p3", S("q3a", x, fx), S("q3b", y, fy))
    p2 = P("p2", p3, S("q2", z, fz))
    p1 = P("p1", p2, S("q1", S("k"), F("fk")))
    p1.kids[1].kids[0].t("e1", p1.kids[1].kids[1])
    top = F("top")
    w = S("w", p1)
    w.t("done.state.p1", top, body=[mark("p1-done")])
    add(ROOT(w, top), "three-level-parallels", alphabet=["e1", "e2", "e3"])

    # top-level final reached while events are still queued; onexit of nested active states at shutdown
    d1, d2 = S("d1"), S("d2")
    d = S("d", d1, d2)
    d1.t("e1", d2)
    d2.onexit.append([braise("r1")])
    top = F("top")
    d2.t("e2", top)
    d.t("e3", top, body=[braise("r2")])
    top.onentry.append([braise("r3")])
    add(ROOT(d, top), "top-final", alphabet=["e1", "e2", "e3"])

    # cancel while in a parallel: all active states exit in reverse document order
    x1, x2, y1 = S("x1"), S("x2"), S("y1")
    x1.t("e1", x2)
    p = P("p", S("rx", x1, x2), S("ry", y1))
    add(ROOT(p), "cancel-parallel", alphabet=["e1", "zz"])

    # final child entered directly as initial state, and by a multi-target transition
    fa, fb = F("fa"), F("fb")
    sa, sb = S("sa"), S("sb")
    ra, rb = S("ra", fa, sa), S("rb", sb, fb)
    p = P("p", ra, rb)
    o = S("o")
    o.t("e1", [fa, fb])
    o.t("e2", p)
    o.t("e3", [sa, fb])
    sb.t("e1", fb)
    p.t("done.state.p", o, body=[mark("p-done")])
    r = ROOT(o, p)
    add(r, "final-initial", alphabet=["e1", "e2", "e3"])
    return docs


C19_TOKENS = ["a", "ab", "abc", "A", "\u00e9", "\u00e9a", "\u65e5\u672c", "\u65e5\u672c\u8a9e", "e\u0301", "\U0001F600x"]


def c19_names(tokens, rng=None, n3=60):
    names = [[t] for t in tokens] + [[a, b] for a in tokens for b in tokens]
    three = [[a, b, c] for a in tokens for b in tokens for c in tokens]
    if rng is not None and len(three) > n3:
        three = rng.sample(three, n3)
    names += three
    names += [["a", ""], ["a", "", "b"], ["ab", ""], ["\u00e9", "", "x"]]   # empty tokens: "a.", "a..b"
    return names


def c19_docs(tokens, rng=None, two_token=None, lists=20):
    """one probe document per descriptor list: t1 = list under test (mark hit), t2 = '*' (mark miss);
    a first transition 'go' raises a selection of names so that internal events are matched too."""
    descs = [[t] for t in tokens]
    two = [[a, b] for a in tokens for b in tokens]
    if two_token is not None and rng is not None and len(two) > two_token:
        two = rng.sample(two, two_token)
    descs += two
    probes = []
    for d in descs:
        for suffix in ("", ".", ".*"):
            probes.append(([d], ".".join(d) + suffix))
    # repeated insignificant suffixes (the reader strips them until nothing changes)
    for d in descs[:len(tokens)]:
        for suffix in ("..", ".*.*", ".*.", "..*", ".*.*."):
            probes.append(([d], ".".join(d) + suffix))
    probes.append(([["*"]], "*"))
    for w in ("*.*", "*.", "*.*.", "*.."):
        probes.append(([["*"]], w))
    r = rng or random.Random(0)
    # every ordered pair of single-token descriptors (an earlier descriptor may be a character prefix of a token
    # that a later descriptor matches as a whole)
    for a in tokens:
        for b in tokens:
            if a != b:
                probes.append(([[a], [b]], a + " " + b + r.choice(["", ".*"])))
    for _ in range(lists):
        d1, d2 = r.choice(descs), r.choice(descs)
        probes.append(([d1, d2], ".".join(d1) + r.choice(["", ".", ".*"]) + " " + ".".join(d2) + r.choice(["", ".*"])))
        probes.append(([d1, ["*"]], ".".join(d1) + " *"))
    docs = []
    for i, (ev, spell) in enumerate(probes):
        s = S("s")
        inner = c19_names(tokens[:6], r, 10)
        s.t("go", None, body=[raise_(n) for n in inner])
        t1 = s.t(None, None)
        t1.ev = ev
        t1.spell = spell
        s.t("*", None)
        d = Doc(ROOT(s), family="c19", name="probe%d:%s" % (i, spell), alphabet=["go"])
        docs.append(d)
    return docs


def c08_block(rng, depth=0, err_ok=True, size=None):
    """random block of executable content (nested up to depth 3); every branch and instruction leaves a mark"""
    n = size if size is not None else rng.randint(1, 4)
    out = []
    cnt = c08_block.cnt

    def tag():
        cnt[0] += 1
        return "m%d" % cnt[0]

    def vexpr():
        r = rng.random()
        if r < 0.3:
            return expr("const", v=rng.randint(0, 4))
        if r < 0.6:
            return expr("var", rng.choice(["x", "y"]))
        if r < 0.9:
            return expr("inc", rng.choice(["x", "y"]))
        return expr("var", "undeclared")

    def cexpr():
        r = rng.random()
        if r < 0.15:
            return cond("true")
        if r < 0.3:
            return cond("false")
        return cond(rng.choice(["lt", "ge", "eq"]), n=rng.choice(["x", "y"]), v=rng.randint(0, 3))

    for _ in range(n):
        r = rng.random()
        if r < 0.2:
            out.append(mark(tag(), expr("var", "x"), expr("var", "y")))
        elif r < 0.35:
            out.append(assign(rng.choice(["x", "y", "x", "y", "undeclared"]), vexpr()))
        elif r < 0.45:
            out.append(raise_(rng.choice(["q1", "q2"])))
        elif r < 0.52:
            out.append(ins("send", ev=[rng.choice(["q1", "q3"])]))
        elif r < 0.6:
            out.append(ins(rng.choice(["log", "script"]), e=[vexpr()]))
        elif r < 0.85 and depth < 3:
            nb = rng.randint(1, 3)
            br = [{"c": cexpr(), "blk": [mark(tag())] + c08_block(rng, depth + 1, err_ok, rng.randint(0, 2))} for _ in range(nb)]
            els = [mark(tag())] + c08_block(rng, depth + 1, err_ok, rng.randint(0, 2)) if rng.random() < 0.6 else 0
            out.append(ins("if", br=br, els=els))
        elif depth < 3:
            item = rng.choice(["it", "x"])
            if rng.random() < 0.12:
                out.append(ins("foreach", e=[rng.choice([expr("err"), expr("const", v=5), expr("var", "undeclared")])],
                               n="it", blk=[mark(tag())]))
                out.append(mark(tag()))
                continue
            out.append(ins("foreach", arr=[rng.randint(0, 3) for _ in range(rng.randint(0 if item == "it" else 1, 3))], n=item,
                           blk=[mark(tag(), expr("var", "x"))] + c08_block(rng, depth + 1, err_ok, rng.randint(0, 2))))
        else:
            out.append(mark(tag()))
        out.append(mark(tag()))
    return out


c08_block.cnt = [0]


def inject_errors(block, positions):
    """copies of `block` with an ERR at one expression position each (positions: generator of paths)"""
    import copy
    res = []
    sites = []

    def walk(b, path):
        for i, it in enumerate(b):
            p = path + [i]
            if it["op"] in ("assign", "log", "script") or (it["op"] == "mark" and it["e"]):
                sites.append((p, "e"))
            if it["op"] == "send":
                sites.append((p, "send"))
            if it["op"] == "if":
                for k, brn in enumerate(it["br"]):
                    sites.append((p + ["br", k], "c"))
                    walk(brn["blk"], p + ["br", k, "blk"])
                if it["els"]:
                    walk(it["els"], p + ["els"])
            if it["op"] == "foreach":
                walk(it["blk"], p + ["blk"])

    walk(block, [])
    for (p, kind) in sites:
        b = copy.deepcopy(block)
        node = b
        for step in p:
            node = node[step]
        syn = len(res) % 3 == 1          # every third variant: a syntax error instead of a failing evaluation
        if kind == "e":
            node["e"] = [expr("err", v=1 if syn else 0)] + node["e"][1:]
        elif kind == "send":
            node["e"] = [expr("err", v=1 if syn else 0)]
        else:
            node["c"] = cond("err", v=1 if syn and not (gk_guarded := False) else 0)
        res.append(b)
    return res


def c08_docs(rng, count, with_errors=True, dm="rfsm-expression", max_variants=6):
    """documents whose onentry / onexit / transition / initial / history-default bodies are random blocks;
    for each base document variants with an ERR injected at one expression position of one block"""
    docs = []
    for di in range(count):
        c08_block.cnt[0] = 0
        blocks = {k: c08_block(rng) for k in ("en_a", "ex_a", "t1", "t2", "en_b", "init_c", "hdef")}

        def build(bl, name):
            a, b = S("a"), S("b")
            c1, c2 = S("c1"), S("c2")
            h = H("h")
            c = S("c", h, c1, c2)
            h.t(None, c2, body=bl["hdef"])
            c.initial = ("elem", Trans(tgt=[c1], body=bl["init_c"]))
            a.onentry.append(bl["en_a"])
            a.onentry.append([mark("en_a2", expr("var", "x"), expr("var", "y"))])   # a second block still runs
            a.onexit.append(bl["ex_a"])
            b.onentry.append(bl["en_b"])
            a.t("e1", b, body=bl["t1"])
            a.t("e2", None, body=bl["t2"])
            b.t("e1", c)
            b.t("e2", h)
            c.t("e1", a)
            c1.t("e2", c2)
            return Doc(ROOT(a, b, c), vars_={"x": 0, "y": 1}, family="c08", name=name, alphabet=["e1", "e2"], dm=dm)

        docs.append(build(blocks, "c08-%s-%d" % (dm[:4], di)))
        if with_errors:
            for k in blocks:
                vs = inject_errors(blocks[k], None)
                for vi, v in enumerate(vs[:max_variants]):
                    bl = dict(blocks)
                    bl[k] = v
                    docs.append(build(bl, "c08-%s-%d-err-%s-%d" % (dm[:4], di, k, vi)))
    return docs


def guard_error_docs():
    """transition guards that fail to evaluate: the guard counts as false and error.execution is queued - during the
    *selection*, i.e. outside any microstep (eventless and evented guards, handled and unhandled error events)"""
    docs = []

    def add(root, name, **kw):
        docs.append(Doc(root, family="guarderr", name=name, **kw))

    for v in (0, 1):
        # eventless guard fails while the internal queue is empty; the error event leaves the state
        a, b, c = S("ga"), S("gb"), S("gc")
        a.t(None, c, cond_=cond("err", v=v))
        a.t("error.execution", b, body=[mark("err-seen")])
        a.t("e1", c)
        b.t("e1", a)
        b.t("e2", c)
        c.t("e1", b)
        add(ROOT(a, b, c), "eventless-guard-error-%d" % v, alphabet=["e1", "e2"])
        # evented guard fails: the next transition in document order is taken, the error event follows the step
        a, b, c = S("ha"), S("hb"), S("hc")
        a.t("e1", c, cond_=cond("err", v=v))
        a.t("e1", b, body=[raise_("r1")])
        b.t("error.execution", None, body=[mark("err-in-b")])
        b.t("r1", None, body=[mark("r1-in-b")])
        b.t("e1", a)
        c.t("e1", a)
        add(ROOT(a, b, c), "evented-guard-error-%d" % v, alphabet=["e1", "e2"])
        # eventless guard fails in a region of a parallel while the other region raises: order of the mixed enqueues
        p1, p2, q1, q2 = S("p1"), S("p2"), S("q1"), S("q2")
        rp, rq = S("rp", p1, p2), S("rq", q1, q2)
        par = P("gp", rp, rq)
        o = S("go")
        p1.t(None, p2, cond_=cond("err", v=v))
        p1.t("error.execution", p2, body=[mark("err-p1")])
        q1.t("e1", q2, body=[raise_("r1")])
        q2.t("r1", q1)
        p2.t("e1", p1)
        par.t("e2", o)
        o.t("e1", par)
        add(ROOT(par, o), "parallel-guard-error-%d" % v, alphabet=["e1", "e2"])
    return docs


def null_docs():
    """datamodel="null": no scripting, but <raise>, <send>, <if cond="In(..)"> still are executable content"""
    docs = []
    a, b, c = S("a"), S("b"), S("c")
    a.onentry.append([raise_("r1")])
    a.t("r1", b, body=[raise_("r2"), ins("send", ev=["r3"])])
    b.t("r2", c)
    c.t("r3", a)
    c.t("e1", b)
    b.t("e1", a)
    docs.append(Doc(ROOT(a, b, c), dm="null", auto_marks=False, guards=False, family="null", name="null-raise",
                    alphabet=["e1", "zz"]))
    p1, p2, q1, q2 = S("p1"), S("p2"), S("q1"), S("q2")
    par = P("par", S("rp", p1, p2), S("rq", q1, q2))
    tmp = Doc(ROOT(par))
    p1.t("e1", p2, body=[ins("if", br=[{"c": cond("in", s=tmp.ids["q2"]), "blk": [raise_("inq2")]}], els=[raise_("notinq2")])])
    q1.t("e1", q2)
    q2.t("inq2", q1)
    q1.t("notinq2", None, body=[raise_("r9")])
    p2.t("e2", p1)
    docs.append(Doc(ROOT(par), dm="null", auto_marks=False, guards=False, family="null", name="null-if-in",
                    alphabet=["e1", "e2"]))
    return docs


def rebuild(doc, **kw):
    """the same tree as another Doc with different document options"""
    args = dict(vars_=doc.vars, dm=doc.dm, binding=doc.binding, alphabet=doc.j["alphabet"], auto_marks=doc.auto_marks,
                guards=doc.guards, family=doc.family, name=doc.name, in_marks=doc.in_marks)
    args.update(kw)
    return Doc(doc.root, **args)


def invoke_in_docs():
    """In() of a session must be answered from its own configuration also after it invoked a child whose
    document has other (and partly equally named) states"""
    docs = []
    for dm in ("rfsm-expression", "ecmascript"):
        s0, s1, shared = S("s0"), S("s1"), S("shared")
        child = ('<invoke type="scxml" id="kid"><content><scxml xmlns="http://www.w3.org/2005/07/scxml" version="1.0" '
                 'datamodel="%s" initial="c0"><state id="c0"><transition event="never" target="shared"/></state>'
                 '<state id="shared"/><state id="s1"/></scxml></content></invoke>' % dm)
        s0.extra_xml = [child]
        s0.t("e1", s1)
        s0.t("e2", None)
        s1.t("e1", shared)
        s1.t("e2", s0)
        shared.t("e1", s0)
        docs.append(Doc(ROOT(s0, s1, shared), dm=dm, family="invoke-in", name="invoke-in-" + dm[:4], in_marks=True,
                        alphabet=["e1", "e2"]))
        docs[-1].pre_sleep = 60
    return docs


def binding_docs():
    """data binding (C09): state-level <datamodel>, read before / at / after first entry and on re-entry,
    under early and late binding"""
    docs = []
    for binding, attr in (("early", False), ("late", False), ("early", True), ("late", True)):
        a, b, b1, b2, c = S("a"), S("b"), S("b1"), S("b2"), S("c")
        b.add(b1)
        b.add(b2)
        b.data = [("db", 5)]
        b2.data = [("db2", 7)]
        c.data = [("dc", 9)]
        rd = [expr("var", "db"), expr("var", "db2"), expr("var", "dc"), expr("var", "x")]
        a.onentry.append([mark("rd-a", *rd)])
        b.onentry.append([mark("rd-b", *rd), assign("db", expr("inc", "db"))])
        b2.onentry.append([mark("rd-b2", *rd), assign("db2", expr("inc", "db2"))])
        c.onentry.append([mark("rd-c", *rd)])
        a.t("e1", b, body=[mark("rd-t", *rd)])
        a.t("e2", b2)
        a.t("e3", c)
        b1.t("e1", b2)
        b.t("e2", a)
        b.t("e3", c, body=[assign("dc", expr("const", v=1))])   # assigned before c is entered for the first time
        c.t("e1", a)
        c.t("e2", b)
        r = ROOT(a, b, c)
        if attr:
            # with the initial attribute the <scxml> element itself is never "entered" by the algorithm
            r.initial = ("attr", [a])
        docs.append(Doc(r, binding=binding, family="binding", name="binding-%s%s" % (binding, "-attr" if attr else ""),
                        alphabet=["e1", "e2", "e3"]))
    return docs


def xml_ins(text):
    return ins("xml", tag=text)


EV_MARK = "<script>mark('ev', _event.name, _event.type, _event.sendid, _event.origin, _event.origintype, _event.invokeid, _event.data)</script>"
SYS_VARS = ["_sessionid", "_name", "_ioprocessors", "_event", "_event.name", "_event.type", "_event.sendid", "_event.origin",
            "_event.origintype", "_event.invokeid", "_event.data"]


def c09_event_docs(dm="rfsm-expression"):
    """documents validated by TraceC09.tla only (their content is literal XML, opaque to Sem.tla)"""
    docs = []
    # 1. _event fields for external / internal / platform events, with params and content
    a = S("a")
    a.t("go", None, body=[xml_ins(EV_MARK), xml_ins('<raise event="r1"/>'),
                          xml_ins('<send event="s1" target="#_internal" id="sid1"><param name="p1" expr="1"/><param name="p2" expr="\'two\'"/></send>'),
                          xml_ins('<send event="s2" target="#_internal"><content expr="42"/></send>'),
                          xml_ins('<assign location="nosuch" expr="1"/>')])
    a.t("*", None, body=[xml_ins(EV_MARK)])
    docs.append(Doc(ROOT(a), dm=dm, auto_marks=False, family="c09ev", name="event-fields-" + dm[:4], alphabet=["go"]))
    # 2. attempts to modify system variables: onexit of s_i tries, the transition body reads back
    forms = {"assign": '<assign location="%s" expr="\'zz\'"/>', "script": "<script>%s = 'zz'</script>"}
    if dm == "rfsm-expression":
        forms["init"] = "<script>%s ?= 'zz'</script>"
    for var in SYS_VARS:
        fl = dict(forms)
        if "." not in var:
            fl["foreach"] = '<foreach array="[1]" item="%s"></foreach>'
        states = [S("s%d" % i) for i in range(len(fl) + 1)]
        for i, (fname, tmpl) in enumerate(fl.items()):
            st = states[i]
            st.onexit.append([xml_ins("<script>mark('sysb:%s:%s', %s)</script>" % (var, fname, var)), xml_ins(tmpl % var)])
            st.t("e1", states[i + 1], body=[xml_ins("<script>mark('sysa:%s:%s', %s)</script>" % (var, fname, var))])
        docs.append(Doc(ROOT(*states), dm=dm, auto_marks=False, family="c09sys", name="sys-%s-%s" % (var, dm[:4]),
                        alphabet=["e1"]))
    return docs


# ---------------------------------------------------------------- random documents
def random_doc(rng, max_states=9, max_trans=8, history=True, finals=True, content=True, name=""):
    cnt = [0]

    def nm(prefix):
        cnt[0] += 1
        return "%s%d" % (prefix, cnt[0])

    budget = [rng.randint(3, max_states)]

    def build(depth, in_parallel):
        """children list for a compound/parallel"""
        kind = rng.random()
        budget[0] -= 1
        if depth >= 3 or budget[0] <= 0 or kind < 0.45:
            return S(nm("s"))
        if kind < 0.75:
            n = S(nm("c"))
            k = rng.randint(1, 3)
            for _ in range(k):
                n.add(build(depth + 1, False))
            if finals and rng.random() < 0.3:
                n.add(F(nm("f")))
            if history and rng.random() < 0.35:
                h = H(nm("h"), deep=rng.random() < 0.5)
                n.kids.insert(rng.randint(0, len(n.kids)), h)
                h.parent = n
            return n
        n = P(nm("p"))
        for _ in range(rng.randint(2, 3)):
            c = build(depth + 1, True)
            if c.kind == "parallel" or not c.kids:
                # regions are states (atomic or compound)
                pass
            n.add(c)
        if history and rng.random() < 0.2:
            h = H(nm("h"), deep=rng.random() < 0.5)
            n.add(h)
        return n

    root = ROOT()
    for _ in range(rng.randint(1, 3)):
        root.add(build(1, False))
    if finals and rng.random() < 0.4:
        root.add(F(nm("f")))
    if root.kids[0].kind == "final" and len(root.kids) == 1:
        root.kids.insert(0, S(nm("s")))
    tmp = Doc(root)
    allnodes = [n for n in tmp.nodes if n.kind != "root"]
    real = [n for n in allnodes if n.kind != "history"]
    nonfinal = [n for n in real if n.kind != "final"]
    hist = [n for n in allnodes if n.kind == "history"]

    def descendants(n):
        out = []
        for k in n.kids:
            out.append(k)
            out += descendants(k)
        return out

    # history default transitions: a non-history descendant of the parent (child for shallow)
    for h in hist:
        par = h.parent
        cands = [k for k in par.kids if k.kind != "history"] if h.htype == "shallow" else \
            [x for x in descendants(par) if x.kind != "history"]
        if par.kind == "parallel":
            # default for a history of a parallel: one state in some region (others get defaults)
            cands = [x for x in descendants(par) if x.kind not in ("history",) and x.parent is not par] or cands
        h.t(None, rng.choice(cands))
    events = ["e1", "e2", "e3"]
    ntrans = rng.randint(2, max_trans)
    for _ in range(ntrans):
        src = rng.choice(nonfinal)
        r = rng.random()
        if r < 0.12:
            tgt = None
        elif r < 0.22 and hist:
            tgt = [rng.choice(hist)]
        else:
            tgt = [rng.choice(real)]
        ev = rng.choice(events + events + ["e1 e2", "*", ""])
        c = TRUE
        rr = rng.random()
        if rr < 0.15:
            c = cond(rng.choice(["in", "notin"]), s=rng.choice(real).id)
        elif rr < 0.3 or ev == "":
            c = cond("lt", n="x", v=rng.randint(1, 3))
        body = None
        if content:
            b = []
            if ev == "" or rng.random() < 0.3:
                b.append(assign("x", expr("inc", "x")))
            if rng.random() < 0.25:
                b.append(braise(rng.choice(["r1", "r2", "e1"])))
            if rng.random() < 0.15:
                b.append(ins("if", br=[{"c": cond("lt", n="x", v=2), "blk": [mark("ifa"), braise("r1")]}],
                             els=[mark("ifb")]))
            body = b or None
        if ev == "":
            c = cond("lt", n="x", v=rng.randint(1, 3))
            body = [assign("x", expr("inc", "x"))] + [i for i in (body or []) if i["op"] != "assign"]
        internal = rng.random() < 0.2
        src.t(ev, tgt, cond_=c, internal=internal, body=body)
    # some handlers for raised events
    for n in rng.sample(nonfinal, min(2, len(nonfinal))):
        n.t(rng.choice(["r1", "r2"]), rng.choice(real) if rng.random() < 0.7 else None)
    if content:
        for n in rng.sample(real, min(3, len(real))):
            r = rng.random()
            if r < 0.3:
                n.onentry.append([braise(rng.choice(["r1", "r2"]))])
            elif r < 0.5:
                n.onexit.append([braise("r2")])
            elif r < 0.7:
                n.onentry.append([assign("x", expr("inc", "x")), mark("x", expr("var", "x"))])
    # initial forms
    for n in [tmp.root] + [x for x in nonfinal if any(k.kind != "history" for k in x.kids) and x.kind == "state"]:
        r = rng.random()
        kids = [k for k in n.kids if k.kind != "history"]
        if r < 0.3:
            n.initial = ("attr", [rng.choice(kids)])
        elif r < 0.45 and n.kind != "root":
            n.initial = ("elem", Trans(tgt=[rng.choice(kids)]))
    # avoid unbounded eventless loops: every eventless transition is guarded by x < k and increments x (done above)
    return Doc(tmp.root, family="rand", name=name, alphabet=["e1", "e2", "e3", "zz"])


def random_par_doc(rng, name="", history=False):
    """a parallel-heavy random document: several regions whose atomic states react to the same events, so that
    microsteps with several transitions, pre-emption and order-dependent selection occur often"""
    cnt = [0]

    def nm(p):
        cnt[0] += 1
        return "%s%d" % (p, cnt[0])

    regions = []
    atoms = []
    for _ in range(rng.randint(2, 3)):
        kids = []
        for _ in range(rng.randint(2, 3)):
            if rng.random() < 0.25:
                inner = [S(nm("a")), S(nm("a"))]
                kids.append(S(nm("c"), *inner))
                atoms += inner
            else:
                k = S(nm("a"))
                kids.append(k)
                atoms.append(k)
        r = S(nm("r"), *kids)
        if history and rng.random() < 0.5:
            h = H(nm("h"), deep=rng.random() < 0.5)
            r.kids.insert(0, h)
            h.parent = r
            h.t(None, rng.choice([k for k in r.kids if k.kind != "history"]))
        regions.append(r)
    p = P(nm("p"), *regions)
    o = S(nm("o"))
    wrap = S(nm("w"), p) if rng.random() < 0.4 else p
    if wrap is not p and history and rng.random() < 0.7:
        h = H(nm("h"), deep=True)
        wrap.kids.insert(0, h)
        h.parent = wrap
        h.t(None, p)
    root = ROOT(wrap, o)

    def region_of(a):
        x = a
        while x.parent is not None and x.parent is not p:
            x = x.parent
        return x

    def descendants(n):
        out = []
        for k in n.kids:
            if k.kind != "history":
                out.append(k)
                out += descendants(k)
        return out

    events = ["e1", "e2", "e3"]
    hists = [n for n in descendants(root) + [k for r in regions for k in r.kids] if n.kind == "history"]
    for a in atoms:
        reg = region_of(a)
        for _ in range(rng.randint(1, 2)):
            r = rng.random()
            if r < 0.6:
                tgt = [rng.choice([x for x in descendants(reg) if x is not a] or [a])]
            elif r < 0.72:
                other = rng.choice([x for x in regions if x is not reg])
                tgt = [rng.choice(descendants(other))]
            elif r < 0.84:
                tgt = [o]
            elif r < 0.92:
                tgt = None
            else:
                tgt = [reg]
            body = [braise(rng.choice(["r1", "r2"]))] if rng.random() < 0.15 else None
            c = TRUE
            if rng.random() < 0.15:
                c = cond("lt", n="x", v=rng.randint(1, 3))
                body = (body or []) + [assign("x", expr("inc", "x"))]
            a.t(rng.choice(events), tgt, cond_=c, internal=rng.random() < 0.15, body=body)
    for reg in regions:
        if rng.random() < 0.5:
            reg.t(rng.choice(events + ["r1"]), [rng.choice(descendants(reg))] if rng.random() < 0.7 else [o],
                  internal=rng.random() < 0.3)
    if rng.random() < 0.6:
        p.t(rng.choice(events + ["r2"]), [o] if rng.random() < 0.6 else None)
    # back into the parallel: default, multi-target into two regions, or through a history state
    o.t("e1", p)
    two = rng.sample(regions, 2)
    o.t("e2", [rng.choice(descendants(two[0])), rng.choice(descendants(two[1]))])
    if hists:
        o.t("e3", [rng.choice(hists)])
    else:
        o.t("e3", [rng.choice(atoms)])
    return Doc(root, family="par", name=name, alphabet=["e1", "e2", "e3"])


def par_docs(seed, count, history=False):
    rng = random.Random(seed * 7919 + 13)
    return [random_par_doc(rng, name="par%d" % i, history=history) for i in range(count)]


def rand_docs(seed, count, **kw):
    rng = random.Random(seed)
    out = []
    while len(out) < count:
        try:
            out.append(random_doc(rng, name="rand%d" % len(out), **kw))
        except (IndexError, ValueError, AssertionError):
            continue
    return out


# ---------------------------------------------------------------- F-small: all trees x single transitions
def small_trees(nmax, history=True):
    """all valid state trees with up to nmax non-root nodes (kinds state/parallel/final/history)"""
    # a tree is (kind, htype, [children]); enumerate by size
    from functools import lru_cache

    @lru_cache(None)
    def forests(size, parent_kind):
        """all ordered forests of total size `size` valid as children of parent_kind"""
        if size == 0:
            return [()]
        out = []
        for first in range(1, size + 1):
            for t in trees(first, parent_kind):
                for rest in forests(size - first, parent_kind):
                    out.append((t,) + rest)
        return out

    @lru_cache(None)
    def trees(size, parent_kind):
        out = []
        if size == 1:
            out.append(("state", "", ()))
            if parent_kind in ("root", "state"):
                out.append(("final", "", ()))
            if history and parent_kind in ("state", "parallel"):
                out.append(("history", "shallow", ()))
                out.append(("history", "deep", ()))
        else:
            for f in forests(size - 1, "state"):
                if any(k[0] != "history" for k in f):
                    out.append(("state", "", f))
            for f in forests(size - 1, "parallel"):
                real = [k for k in f if k[0] != "history"]
                if len(real) >= 1:
                    out.append(("parallel", "", f))
        return out

    res = []
    for size in range(1, nmax + 1):
        for f in forests(size, "root"):
            real = [k for k in f if k[0] != "history"]
            if not real or real[0][0] == "final" and len(real) == 1:
                continue
            res.append(f)
    return res


def tree_to_nodes(forest):
    cnt = [0]

    def mk(t):
        cnt[0] += 1
        kind, htype, kids = t
        n = Node("%s%d" % (kind[0], cnt[0]), kind, htype)
        for k in kids:
            n.add(mk(k))
        return n

    root = ROOT()
    for t in forest:
        root.add(mk(t))
    return root


def small_docs(nmax, rng=None, sample=None, history=True):
    """F-small: every tree up to nmax nodes x every single transition (source, target, type, event e1) plus a
    'back' transition set so that the configuration can change more than once."""
    docs = []
    forests = small_trees(nmax, history)
    for fi, f in enumerate(forests):
        base = tree_to_nodes(f)
        tmp = Doc(base)
        names = [n.name for n in tmp.nodes]
        real = [n.name for n in tmp.nodes if n.kind not in ("root", "history")]
        srcs = [n.name for n in tmp.nodes if n.kind in ("state", "parallel")]
        hists = [n for n in tmp.nodes if n.kind == "history"]
        targets = [n.name for n in tmp.nodes if n.kind != "root"]
        combos = [(s, t, i) for s in srcs for t in targets + [None] for i in (False, True)]
        if sample is not None and rng is not None and len(combos) > sample:
            combos = rng.sample(combos, sample)
        for (s, t, internal) in combos:
            root = tree_to_nodes(f)
            d0 = Doc(root)
            byname = {n.name: n for n in d0.nodes}
            ok = True
            for h in [n for n in d0.nodes if n.kind == "history"]:
                par = h.parent
                cands = [k for k in par.kids if k.kind != "history"]
                if not cands:
                    ok = False
                    break
                h.t(None, cands[-1])
            if not ok:
                continue
            byname[s].t("e1", byname[t] if t else None, internal=internal)
            # a second event moves every top-level state to the first top-level state
            first = [k for k in root.kids if k.kind != "history"][0]
            for k in root.kids:
                if k.kind in ("state", "parallel"):
                    k.t("e2", first)
            docs.append(Doc(root, family="small", name="small%d" % len(docs), alphabet=["e1", "e2"]))
    return docs


def to_json(docs):
    return json.dumps([d.j for d in docs])


if __name__ == "__main__":
    ds = shape_docs()
    print(len(ds), "shape docs")
    print(ds[0].xml())
    print(len(small_trees(3)), "trees<=3")
    for k in range(1, 5):
        print(k, len(small_trees(k)))
