"""F-syntax: random SCXML documents covering every element kind and attribute combination, as an element
tree that can be serialised in several lexical variants, together with the abstract document (the "D" side of
Mirror.tla: ids in document order, structure, transitions, normal-form content)."""
import random
from xml.sax.saxutils import escape

SCXML_NS = "http://www.w3.org/2005/07/scxml"
XI_NS = "http://www.w3.org/2001/XInclude"


class El:
    def __init__(self, tag, attrs=None, kids=None, text=None):
        self.tag = tag
        self.attrs = list(attrs or [])      # list of (name, value)
        self.kids = list(kids or [])        # El children
        self.text = text                    # raw text content (only for leaf elements with text)
        self.includable = False


# ---------------------------------------------------------------- serialisation variants
def esc_attr(v, quote, rng=None, entities=False):
    out = []
    for ch in v:
        if ch == "&":
            out.append("&amp;")
        elif ch == "<":
            out.append("&lt;")
        elif ch == ">":
            out.append("&gt;")
        elif ch == quote:
            out.append("&quot;" if quote == '"' else "&apos;")
        elif entities and rng is not None and ch.isalnum() and rng.random() < 0.25:
            out.append(("&#%d;" % ord(ch)) if rng.random() < 0.5 else ("&#x%x;" % ord(ch)))
        elif entities and ch in "\"'" and rng is not None:
            out.append("&quot;" if ch == '"' else "&apos;")
        else:
            out.append(ch)
    return "".join(out)


def esc_text(v, rng=None, entities=False):
    out = []
    for ch in v:
        if ch == "&":
            out.append("&amp;")
        elif ch == "<":
            out.append("&lt;")
        elif ch == ">" and entities:
            out.append("&gt;")
        elif entities and rng is not None and ch.isalnum() and rng.random() < 0.2:
            out.append("&#%d;" % ord(ch))
        else:
            out.append(ch)
    return "".join(out)


VARIANTS = ["canon", "space", "squote", "entities", "prefix", "attrorder", "openclose", "descr", "xinclude", "cdata"]


def serialize(root, variant="canon", seed=0, frag_dir=None):
    """-> (text, {filename: fragment text})"""
    rng = random.Random(seed)
    frags = {}
    prefix = "sc:" if variant == "prefix" else ""

    def ws():
        if variant != "space":
            return " "
        return rng.choice([" ", "  ", "\n   ", "\t", " \n"])

    def between(ind):
        if variant != "space":
            return "\n" + " " * ind
        s = "\n" * rng.randint(1, 2) + " " * rng.randint(0, 6)
        if rng.random() < 0.3:
            s += "<!-- c%d -->" % rng.randint(0, 99) + "\n" + " " * ind
        return s

    def ser(e, ind, top=False):
        attrs = list(e.attrs)
        if variant == "attrorder":
            rng.shuffle(attrs)
        if variant == "descr" and e.tag == "transition":
            attrs = [(k, " ".join(d + rng.choice(["", ".", ".*"]) if d != "*" else d for d in v.split()) if k == "event" else v)
                     for k, v in attrs]
        quote = "'" if variant == "squote" else '"'
        a = ""
        if top:
            if prefix:
                a += ws() + 'xmlns:sc=%s%s%s' % (quote, SCXML_NS, quote)
            else:
                a += ws() + 'xmlns=%s%s%s' % (quote, SCXML_NS, quote)
            if variant == "xinclude":
                a += ws() + 'xmlns:xi=%s%s%s' % (quote, XI_NS, quote)
        for k, v in attrs:
            a += ws() + "%s%s=%s%s%s%s" % (k, "" if variant != "space" else rng.choice(["", " "]),
                                           "" if variant != "space" else rng.choice(["", " "]),
                                           quote, esc_attr(v, quote, rng, variant == "entities"), quote)
        tag = prefix + e.tag
        if e.text is not None:
            if variant == "cdata" and e.text:
                body = "<![CDATA[" + e.text + "]]>"
            else:
                body = esc_text(e.text, rng, variant == "entities")
            if variant == "space":
                body = rng.choice(["", " ", "\n  "]) + body + rng.choice(["", " ", "\n"])
            return "<%s%s>%s</%s>" % (tag, a, body, tag)
        if not e.kids:
            if variant == "openclose":
                return "<%s%s></%s>" % (tag, a, tag)
            return "<%s%s%s/>" % (tag, a, ws() if variant == "space" else "")
        parts = []
        for k in e.kids:
            if variant == "xinclude" and k.includable and rng.random() < 0.6 and frag_dir is not None:
                fname = "frag%d.xml" % len(frags)
                frags[fname] = ""            # reserve the name: nested fragments get their own
                frags[fname] = ser(k, 0)
                parts.append('<xi:include href="%s" parse="text"/>' % fname)
            else:
                parts.append(ser(k, ind + 1))
        return "<%s%s>%s%s%s</%s>" % (tag, a, between(ind + 1), between(ind + 1).join(parts), between(ind), tag)

    return ser(root, 0, top=True), frags


# ---------------------------------------------------------------- random documents
NAMES = ["a", "b", "s1", "S1", "st-x", "st_y", "q.r", "état", "状態", "n0", "zz9", "Main", "sub.1", "x-1"]
EVENTS = ["e1", "e2", "go.now", "done.state.x", "error.execution", "a.b.c", "E1", "év", "*", "err.*", "tick."]
EXPRS = ["1", "x + 1", "x < 3", "'str'", "a & b", "y == \"q\"", "In('a')", "[1,2,3]", "{'k':1}", "x > 2 & y <= 4", "f('a', 'b')"]
LOCS = ["x", "y", "data.k", "arr[0]"]


class Gen:
    def __init__(self, seed, size=10):
        self.rng = random.Random(seed)
        self.size = size
        self.names = []
        self.quiet = False
        self.states = []          # D side: list of state dicts in document order
        self.trans = []           # D side: transitions in document order
        self.cnt = 0

    def r(self, p):
        return self.rng.random() < p

    def name(self):
        self.cnt += 1
        base = self.rng.choice(NAMES)
        n = "%s%d" % (base, self.cnt)
        self.names.append(n)
        return n

    def expr(self):
        return self.rng.choice(EXPRS)

    # ---- executable content: returns (elements, normal form list)
    def block(self, depth=0, n=None):
        els, nf = [], []
        for _ in range(n if n is not None else self.rng.randint(0, 3)):
            e, f = self.instr(depth)
            while self.quiet and f["op"] in ("raise", "send", "cancel"):
                e, f = self.instr(depth)      # <finalize> must not raise or send events
            els.append(e)
            nf.append(f)
        return els, nf

    def params(self):
        els, nf = [], []
        for i in range(self.rng.randint(0, 2)):
            if self.r(0.5):
                ex = self.expr()
                els.append(El("param", [("name", "p%d" % i), ("expr", ex)]))
                nf.append({"name": "p%d" % i, "expr": ex, "location": ""})
            else:
                loc = self.rng.choice(LOCS)
                els.append(El("param", [("name", "p%d" % i), ("location", loc)]))
                nf.append({"name": "p%d" % i, "expr": "", "location": loc})
        return els, nf

    def content(self):
        r = self.rng.random()
        if r < 0.4:
            ex = self.expr()
            return [El("content", [("expr", ex)])], {"content": None, "expr": ex}
        if r < 0.8:
            txt = self.rng.choice(["hello", "some text 42", "{\"a\": 1}", "x y z"])
            return [El("content", [], text=txt)], {"content": txt, "expr": None}
        return [], None

    def instr(self, depth):
        r = self.rng.random()
        if r < 0.12:
            ev = self.rng.choice(["r1", "r.2", "done"])
            return El("raise", [("event", ev)]), {"op": "raise", "event": ev}
        if r < 0.24:
            loc, ex = self.rng.choice(LOCS), self.expr()
            if self.r(0.25):
                body = self.rng.choice(["plain body", "a b", "12"])
                return El("assign", [("location", loc)], text=body), {"op": "assign", "location": loc, "expr": '"%s"' % body}
            return El("assign", [("location", loc), ("expr", ex)]), {"op": "assign", "location": loc, "expr": ex}
        if r < 0.34:
            ex = self.expr()
            a = [("expr", ex)]
            lab = ""
            if self.r(0.5):
                lab = "lab%d" % self.rng.randint(0, 9)
                a.insert(0, ("label", lab))
            return El("log", a), {"op": "log", "label": lab, "expr": ex}
        if r < 0.44:
            src = self.rng.choice(["mark('a')", "x = x + 1", "y ?= 2; y", "f(1)"])
            return El("script", [], text=src), {"op": "script", "src": src}
        if r < 0.52:
            if self.r(0.5):
                sid = "id%d" % self.rng.randint(0, 9)
                return El("cancel", [("sendid", sid)]), {"op": "cancel", "sendid": sid, "sendidexpr": None}
            ex = self.expr()
            return El("cancel", [("sendidexpr", ex)]), {"op": "cancel", "sendid": "", "sendidexpr": ex}
        if r < 0.68:
            return self.send()
        if r < 0.84 and depth < 3:
            return self.if_(depth)
        if depth < 3:
            arr, item = self.rng.choice(["[1,2]", "arr", "m.list"]), self.rng.choice(["it", "v"])
            a = [("array", arr), ("item", item)]
            idx = ""
            if self.r(0.5):
                idx = "ix"
                a.append(("index", idx))
            els, nf = self.block(depth + 1)
            return El("foreach", a, els), {"op": "foreach", "array": arr, "item": item, "index": idx, "body": nf}
        if self.quiet:
            return El("log", [("expr", "1")]), {"op": "log", "label": "", "expr": "1"}
        ev = "r9"
        return El("raise", [("event", ev)]), {"op": "raise", "event": ev}

    def send(self):
        a = []
        nf = {"op": "send", "id": "", "idlocation": "", "event": None, "eventexpr": None, "target": None, "targetexpr": None,
              "type": None, "typeexpr": None, "delay_ms": 0, "delayexpr": None, "namelist": [], "params": [], "content": None}
        if self.r(0.6):
            nf["event"] = self.rng.choice(["ev.x", "s1", "done.y"])
            a.append(("event", nf["event"]))
        elif self.r(0.7):
            nf["eventexpr"] = self.expr()
            a.append(("eventexpr", nf["eventexpr"]))
        r = self.rng.random()
        if r < 0.3:
            nf["target"] = self.rng.choice(["#_internal", "#_parent", "#_scxml_7", "#_kid", "http://x/y"])
            a.append(("target", nf["target"]))
        elif r < 0.5:
            nf["targetexpr"] = self.expr()
            a.append(("targetexpr", nf["targetexpr"]))
        r = self.rng.random()
        if r < 0.25:
            nf["type"] = self.rng.choice(["scxml", "http://www.w3.org/TR/scxml/#SCXMLEventProcessor", "x-custom"])
            a.append(("type", nf["type"]))
        elif r < 0.4:
            nf["typeexpr"] = self.expr()
            a.append(("typeexpr", nf["typeexpr"]))
        r = self.rng.random()
        if r < 0.3:
            nf["id"] = "sid%d" % self.rng.randint(0, 99)
            a.append(("id", nf["id"]))
        elif r < 0.45:
            nf["idlocation"] = self.rng.choice(LOCS)
            a.append(("idlocation", nf["idlocation"]))
        r = self.rng.random()
        if r < 0.3:
            if self.r(0.5):
                d, ms = self.rng.choice([("50ms", 50), ("1.5s", 1500), ("2m", 120000), (".5s", 500), ("0s", 0), ("1h", 3600000)])
            else:
                # boundaries of the number encodings of the binary format and of 32-bit arithmetic
                ms = self.rng.choice([15, 16, 255, 256, 4095, 4096, (1 << 20) - 1, 1 << 20, (1 << 28) - 1, 1 << 28, (1 << 31) - 1,
                                      1 << 31, (1 << 32) - 1, 1 << 32, (1 << 32) + 10, 1 << 36, (1 << 36) + 1, 1 << 44, 1 << 52,
                                      (1 << 53) - 1, 4320000000])
                d = "50d" if ms == 4320000000 else "%dms" % ms
            nf["delay_ms"] = ms
            a.append(("delay", d))
        elif r < 0.4:
            nf["delayexpr"] = self.rng.choice(["'1s'", "d"])
            a.append(("delayexpr", nf["delayexpr"]))
        kids = []
        if self.r(0.4):
            kids, nf["content"] = self.content()
        else:
            kids, nf["params"] = self.params()
            if self.r(0.3):
                nl = self.rng.sample(["x", "y", "z"], self.rng.randint(1, 2))
                nf["namelist"] = nl
                a.append(("namelist", " ".join(nl)))
        return El("send", a, kids), nf

    def if_(self, depth):
        c0 = self.expr()
        els, nf_then = self.block(depth + 1)
        kids = list(els)
        branches = [{"cond": c0, "block": nf_then}]
        for _ in range(self.rng.randint(0, 2)):
            c = self.expr()
            e2, n2 = self.block(depth + 1)
            kids.append(El("elseif", [("cond", c)]))
            kids += e2
            branches.append({"cond": c, "block": n2})
        els_nf = None
        if self.r(0.5):
            e3, n3 = self.block(depth + 1, n=self.rng.randint(1, 2))
            # an else block that is exactly one <if> is indistinguishable from an <elseif>: avoid it
            if len(n3) == 1 and n3[0]["op"] == "if":
                e3.append(El("log", [("expr", "0")]))
                n3.append({"op": "log", "label": "", "expr": "0"})
            kids.append(El("else"))
            kids += e3
            els_nf = n3
        return El("if", [("cond", c0)], kids), {"op": "if", "branches": branches, "else": els_nf}

    # ---- states
    def state(self, depth, parent, kind=None):
        rng = self.rng
        if kind is None:
            r = rng.random()
            kind = "state" if r < 0.65 or depth >= 3 else "parallel"
        name = self.name()
        sid = len(self.states) + 1
        d = {"id": sid, "name": name, "kind": kind, "htype": "", "parent": parent, "children": [], "hists": [],
             "init": None, "onentry": [], "onexit": [], "trans": [], "data": {}, "invoke": [], "donedata": None}
        self.states.append(d)
        el = El({"state": "state", "parallel": "parallel", "final": "final", "history": "history"}[kind], [("id", name)])
        el.includable = kind in ("state", "parallel") and depth >= 1
        kids = []
        if kind in ("state", "parallel") and self.r(0.3):
            dk, dnf = [], {}
            for i in range(rng.randint(1, 2)):
                did = "d%d_%d" % (sid, i)
                r = rng.random()
                if r < 0.5:
                    ex = self.expr()
                    dk.append(El("data", [("id", did), ("expr", ex)]))
                    dnf[did] = ex
                elif r < 0.8:
                    txt = rng.choice(["[1,2,3]", "{'a':'b'}", "42"])
                    dk.append(El("data", [("id", did)], text=txt))
                    dnf[did] = txt
                else:
                    dk.append(El("data", [("id", did)]))
                    dnf[did] = ""
            kids.append(El("datamodel", [], dk))
            d["data"] = dnf
        if kind != "history":
            for _ in range(rng.randint(0, 2)):
                e, nf = self.block()
                kids.append(El("onentry", [], e))
                d["onentry"].append(nf)
            for _ in range(rng.randint(0, 2)):
                e, nf = self.block()
                kids.append(El("onexit", [], e))
                d["onexit"].append(nf)
        if kind == "final" and self.r(0.4):
            dd = {"content": None, "params": []}
            dk = []
            if self.r(0.5):
                dk, dd["content"] = self.content()
            else:
                dk, dd["params"] = self.params()
            kids.append(El("donedata", [], dk))
            d["donedata"] = dd
        if kind in ("state", "parallel") and self.r(0.25) and depth >= 1:
            kids_i, inv = self.invoke()
            kids.append(kids_i)
            d["invoke"].append(inv)
        # children
        nchild = 0
        if kind in ("state", "parallel") and depth < 3 and (kind == "parallel" or self.r(0.45)) and len(self.states) < self.size:
            nchild = rng.randint(1 if kind == "state" else 2, 3)
        sub = []
        for i in range(nchild):
            ck = None
            if kind == "state" and self.r(0.2):
                ck = "final"
            ce, cd = self.state(depth + 1, sid, ck)
            sub.append(ce)
            d["children"].append(cd["id"])
        if nchild and self.r(0.35):
            he, hd = self.state(depth + 1, sid, "history")
            hd["htype"] = rng.choice(["shallow", "deep", "shallow"])
            if hd["htype"] == "deep" or self.r(0.5):
                he.attrs.append(("type", hd["htype"]))
            sub.insert(rng.randint(0, len(sub)), he)
            d["hists"].append(hd["id"])
        self.pending.append((d, el, kids, sub))
        return el, d

    def invoke(self):
        a = []
        nf = {"id": "", "idlocation": "", "type": None, "typeexpr": None, "src": None, "srcexpr": None, "namelist": [],
              "autoforward": False, "params": [], "content": None, "finalize": None}
        r = self.rng.random()
        if r < 0.4:
            nf["type"] = self.rng.choice(["scxml", "http://www.w3.org/TR/scxml/"])
            a.append(("type", nf["type"]))
        elif r < 0.5:
            nf["typeexpr"] = "'scxml'"
            a.append(("typeexpr", nf["typeexpr"]))
        r = self.rng.random()
        if r < 0.4:
            nf["id"] = "inv%d" % self.rng.randint(0, 99)
            a.append(("id", nf["id"]))
        elif r < 0.6:
            nf["idlocation"] = self.rng.choice(LOCS)
            a.append(("idlocation", nf["idlocation"]))
        kids = []
        r = self.rng.random()
        if r < 0.3:
            nf["src"] = "child.scxml"
            a.append(("src", nf["src"]))
        elif r < 0.45:
            nf["srcexpr"] = "'child' + '.scxml'"
            a.append(("srcexpr", nf["srcexpr"]))
        else:
            kids, nf["content"] = self.content()
        if self.r(0.4):
            a.append(("autoforward", self.rng.choice(["true", "false", "TRUE"])))
            nf["autoforward"] = a[-1][1].lower() == "true"
        if self.r(0.4):
            nl = self.rng.sample(["x", "y", "z"], self.rng.randint(1, 2))
            nf["namelist"] = nl
            a.append(("namelist", " ".join(nl)))
        pk, nf["params"] = self.params()
        kids = pk + kids
        if self.r(0.5):
            self.quiet = True
            e, b = self.block(n=self.rng.randint(1, 2))
            self.quiet = False
            kids.append(El("finalize", [], e))
            nf["finalize"] = b
        return El("invoke", a, kids), nf

    def build(self):
        rng = self.rng
        self.pending = []
        root = {"id": 1, "name": "", "kind": "root", "htype": "", "parent": 0, "children": [], "hists": [], "init": None,
                "onentry": [], "onexit": [], "trans": [], "data": {}, "invoke": [], "donedata": None}
        self.states.append(root)
        tops = []
        for i in range(rng.randint(1, 3)):
            e, d = self.state(1, 1, "final" if i > 0 and self.r(0.15) else None)
            tops.append(e)
            root["children"].append(d["id"])
        # transitions (need all names first: forward references)
        real = [s for s in self.states if s["kind"] not in ("root", "history")]
        allst = [s for s in self.states if s["kind"] != "root"]
        byid = {s["id"]: s for s in self.states}
        for (d, el, kids, sub) in self.pending:
            tk = []
            if d["kind"] == "history":
                par = byid[d["parent"]]
                cands = [c for c in par["children"]]
                t = {"src": d["id"], "ev": [], "spell": None, "cond": None, "tgt": [rng.choice(cands)], "internal": False,
                     "kind": "h"}
                e, nf = self.block(n=rng.randint(0, 1))
                t["content"] = nf
                tk.append((t, El("transition", [("target", byid[t["tgt"][0]]["name"])], e)))
            elif d["kind"] in ("state", "parallel"):
                for _ in range(rng.randint(0, 3)):
                    t = {"src": d["id"], "ev": [], "spell": None, "cond": None, "tgt": [], "internal": False, "kind": "t"}
                    a = []
                    if self.r(0.8):
                        evs = rng.sample(EVENTS, rng.randint(1, 2))
                        a.append(("event", " ".join(evs)))
                        t["ev"] = evs
                    if self.r(0.4):
                        t["cond"] = self.expr()
                        a.append(("cond", t["cond"]))
                    if self.r(0.85):
                        tg = rng.sample(allst, 1 if self.r(0.8) else min(2, len(allst)))
                        t["tgt"] = [x["id"] for x in tg]
                        a.append(("target", " ".join(x["name"] for x in tg)))
                    r = rng.random()
                    if r < 0.2:
                        t["internal"] = True
                        a.append(("type", "internal"))
                    elif r < 0.3:
                        a.append(("type", "external"))
                    e, nf = self.block()
                    t["content"] = nf
                    tk.append((t, El("transition", a, e)))
            init_el = None
            if d["kind"] == "state" and d["children"]:
                r = rng.random()
                if r < 0.35:
                    tg = [rng.choice(d["children"])]
                    el.attrs.append(("initial", " ".join(byid[x]["name"] for x in tg)))
                    d["init"] = {"form": "attr", "tgt": tg, "content": []}
                elif r < 0.6:
                    tg = [rng.choice(d["children"])]
                    e, nf = self.block(n=rng.randint(0, 2))
                    init_el = El("initial", [], [El("transition", [("target", byid[tg[0]]["name"])], e)])
                    d["init"] = {"form": "elem", "tgt": tg, "content": nf}
                else:
                    d["init"] = {"form": "default", "tgt": [d["children"][0]], "content": []}
            d["trans"] = [t for t, _ in tk]
            order = kids + [e for _, e in tk] + ([init_el] if init_el is not None else [])
            # children states may be interleaved with the other children; transitions keep their relative order
            rest = list(sub)
            rng.shuffle(order) if False else None
            el.kids = order + rest
        # root
        rootel = El("scxml", [("version", "1.0")])
        self.meta = {"name": None, "datamodel": None, "binding": None}
        if self.r(0.6):
            self.meta["name"] = "doc-" + str(rng.randint(0, 999))
            rootel.attrs.append(("name", self.meta["name"]))
        self.meta["datamodel"] = rng.choice(["rfsm-expression", "ecmascript", "null", None])
        if self.meta["datamodel"]:
            rootel.attrs.append(("datamodel", self.meta["datamodel"]))
        if self.r(0.4):
            self.meta["binding"] = rng.choice(["early", "late"])
            rootel.attrs.append(("binding", self.meta["binding"]))
        if self.r(0.5):
            tg = [rng.choice(root["children"])]
            rootel.attrs.append(("initial", byid[tg[0]]["name"]))
            root["init"] = {"form": "attr", "tgt": tg, "content": []}
        else:
            root["init"] = {"form": "default", "tgt": [root["children"][0]], "content": []}
        rk = []
        if self.r(0.5):
            dk, dnf = [], {}
            for i in range(rng.randint(1, 3)):
                ex = self.expr()
                dk.append(El("data", [("id", "g%d" % i), ("expr", ex)]))
                dnf["g%d" % i] = ex
            rk.append(El("datamodel", [], dk))
            root["data"] = dnf
        self.script = None
        if self.r(0.3):
            src = "x ?= 0; y ?= 1"
            rk.append(El("script", [], text=src))
            self.script = [{"op": "script", "src": src}]
        rootel.kids = rk + tops
        return rootel

    def abstract(self):
        """the D side for Mirror.tla"""
        return {"meta": self.meta, "script": self.script, "states": self.states}


def gen_doc(seed, size=10):
    g = Gen(seed, size)
    root = g.build()
    return root, g.abstract()


# ---------------------------------------------------------------- canonical forms for Mirror.tla
NONE = "~"


def s_(v):
    return NONE if v is None else str(v)


def canon_block(nf):
    return [canon_instr(i) for i in (nf or [])]


def canon_content(c):
    if not c:
        return [NONE, NONE]
    return [s_(c.get("content")), s_(c.get("expr"))]


def canon_params(ps):
    return ["%s|%s|%s" % (p["name"], p["expr"], p["location"]) for p in (ps or [])]


def canon_instr(i):
    op = i["op"]
    if op == "raise":
        return {"op": op, "a": [i["event"]], "sub": []}
    if op == "assign":
        return {"op": op, "a": [s_(i["location"]), s_(i["expr"])], "sub": []}
    if op == "log":
        return {"op": op, "a": [i.get("label") or "", s_(i["expr"])], "sub": []}
    if op == "script":
        return {"op": op, "a": [s_(i["src"])], "sub": []}
    if op == "cancel":
        return {"op": op, "a": [i.get("sendid") or "", s_(i.get("sendidexpr"))], "sub": []}
    if op == "send":
        return {"op": op, "a": [i.get("id") or "", i.get("idlocation") or "", s_(i.get("event")), s_(i.get("eventexpr")),
                                s_(i.get("target")), s_(i.get("targetexpr")), s_(i.get("type")), s_(i.get("typeexpr")),
                                str(i.get("delay_ms") or 0), s_(i.get("delayexpr")), " ".join(i.get("namelist") or [])]
                + canon_content(i.get("content")) + ["#"] + canon_params(i.get("params")), "sub": []}
    if op == "foreach":
        return {"op": op, "a": [s_(i["array"]), i["item"], i.get("index") or ""], "sub": [canon_block(i["body"])]}
    if op == "if":
        return {"op": op, "a": [b["cond"] for b in i["branches"]] + (["else"] if i.get("else") is not None else ["noelse"]),
                "sub": [canon_block(b["block"]) for b in i["branches"]] + ([canon_block(i["else"])] if i.get("else") is not None else [])}
    return {"op": "?" + op, "a": [], "sub": []}


def model_if_to_branches(i):
    """the reader encodes <elseif> as an <if> that is the only instruction of the else region"""
    branches = [{"cond": i["cond"], "block": model_block(i["then"])}]
    els = i["else"]
    while isinstance(els, list) and len(els) == 1 and els[0]["op"] == "if":
        branches.append({"cond": els[0]["cond"], "block": model_block(els[0]["then"])})
        els = els[0]["else"]
    return {"op": "if", "branches": branches, "else": model_block(els) if els is not None else None}


def model_block(b):
    out = []
    for i in (b or []):
        if not isinstance(i, dict):
            out.append({"op": "?bad"})
        elif i["op"] == "if":
            out.append(model_if_to_branches(i))
        elif i["op"] == "foreach":
            out.append({"op": "foreach", "array": i["array"], "item": i["item"], "index": i["index"], "body": model_block(i["body"])})
        else:
            out.append(i)
    return out


def split_desc(d):
    return d.split(".")


def norm_tokens(d):
    """tokens of a descriptor as written, trailing '.' / '.*' stripped"""
    if d == "*":
        return ["*"]
    t = d
    changed = True
    while changed:
        changed = False
        for suf in (".*", "."):
            if t.endswith(suf):
                t = t[: -len(suf)]
                changed = True
    return t.split(".")


def canon_invoke(i, parent=""):
    # (the name of the invoking state matters when the invoke id is generated: "<state>.<n>"; with an explicit id the
    # binary format does not store it)
    return {"a": ["@" + (parent if not i.get("id") else ""), i.get("id") or "", i.get("idlocation") or "", s_(i.get("type")), s_(i.get("typeexpr")), s_(i.get("src")),
                  s_(i.get("srcexpr")), " ".join(i.get("namelist") or []), "1" if i.get("autoforward") else "0"]
            + canon_content(i.get("content")) + ["#"] + canon_params(i.get("params")),
            "fin": canon_block(i.get("finalize")), "hasfin": "1" if i.get("finalize") is not None else "0"}


def canon_donedata(d):
    if d is None:
        return {"has": "0", "a": []}
    return {"has": "1", "a": canon_content(d.get("content")) + ["#"] + canon_params(d.get("params"))}


def abstract_to_D(ab, rootel):
    """D for Mirror.tla: states in document order (pre-order of the element tree)"""
    byid = {s["id"]: s for s in ab["states"]}
    byname = {s["name"]: s for s in ab["states"]}
    order = []

    def walk(e):
        if e.tag in ("state", "parallel", "final", "history"):
            nm = dict(e.attrs)["id"]
            order.append(nm)
        for k in e.kids:
            walk(k)

    walk(rootel)

    def child_order(s, el):
        names = [dict(k.attrs)["id"] for k in el.kids if k.tag in ("state", "parallel", "final")]
        hs = [dict(k.attrs)["id"] for k in el.kids if k.tag == "history"]
        return names, hs

    els = {}

    def index(e):
        if e.tag in ("state", "parallel", "final", "history"):
            els[dict(e.attrs)["id"]] = e
        for k in e.kids:
            index(k)

    index(rootel)
    els[""] = rootel
    states = []
    for nm in [""] + order:
        s = byname[nm]
        kids, hs = child_order(s, els[nm])
        init = s.get("init")
        states.append({
            "name": nm, "kind": s["kind"], "htype": s["htype"] if s["kind"] == "history" else "",
            "parent": byid[s["parent"]]["name"] if s["parent"] else NONE,
            "children": kids, "hists": hs,
            "init": {"form": init["form"], "tgt": [byid[x]["name"] for x in init["tgt"]], "content": canon_block(init["content"])}
            if init else {"form": "none", "tgt": [], "content": []},
            "onentry": [canon_block(b) for b in s["onentry"]], "onexit": [canon_block(b) for b in s["onexit"]],
            "trans": [{"ev": [norm_tokens(d) for d in t["ev"]], "cond": s_(t["cond"]),
                       "tgt": [byid[x]["name"] for x in t["tgt"]], "internal": bool(t["internal"]),
                       "content": canon_block(t["content"])} for t in s["trans"]],
            "data": [[k, v] for k, v in sorted(s["data"].items())],
            "invoke": [canon_invoke(i, nm) for i in s["invoke"]],
            "donedata": canon_donedata(s["donedata"]),
        })
    m = ab["meta"]
    return {"name": m["name"] or "FSM", "datamodel": m["datamodel"] or "NULL", "binding": m["binding"] or "early",
            "script": canon_block(ab["script"]), "states": states}


def model_to_M(model):
    """canonical M from the harness dump"""
    states = []
    for s in model["states"]:
        init = s["initial"]
        states.append({
            "name": s["name"], "kind": s["kind"], "htype": s["htype"], "parent": s["parent"] or NONE,
            "children": s["children"], "children_stored": s["children_stored"], "hists": s["history"],
            "init": {"has": "1", "tgt": init["targets"], "internal": bool(init["internal"]),
                     "content": canon_block(model_block(init["content"])), "hascontent": "1" if init["content"] is not None else "0"}
            if init else {"has": "0", "tgt": [], "internal": False, "content": [], "hascontent": "0"},
            "onentry": [canon_block(model_block(b)) for b in s["onentry"]],
            "onexit": [canon_block(model_block(b)) for b in s["onexit"]],
            "trans": [{"ev": [d.split(".") if d != "*" else ["*"] for d in t["events"]], "wildcard": bool(t["wildcard"]),
                       "cond": s_(t["cond"]), "tgt": t["targets"], "internal": bool(t["internal"]), "source": t["source"],
                       "content": canon_block(model_block(t["content"]))} for t in s["transitions"]],
            "data": [[k, s_(v) if v is not None else ""] for k, v in sorted(s["data"].items())],
            "invoke": [canon_invoke({"id": i["id"], "idlocation": i["idlocation"], "type": i["type"], "typeexpr": i["typeexpr"],
                                     "src": i["src"], "srcexpr": i["srcexpr"], "namelist": i["namelist"],
                                     "autoforward": i["autoforward"], "params": i["params"], "content": i["content"],
                                     "finalize": model_block(i["finalize"]) if i["finalize"] is not None else None},
                                    i.get("parent_state") or "")
                       for i in s["invoke"]],
            "donedata": canon_donedata(s["donedata"]),
        })
    return {"name": model["name"], "datamodel": model["datamodel"], "binding": model["binding"], "root": model["root"],
            "script": canon_block(model_block(model["script"])), "states": states}
