"""Turns the flat record list of one recorded session into step records (strictly by the tracer's
brackets, nothing is inferred) with state names / transition ids translated to document ids."""


def obs_rec(k, s=0, t="", v=None, c=None):
    return {"k": k, "s": s, "t": t, "v": v or [], "c": c or []}


def val_str(v):
    if isinstance(v, bool):
        return "1" if v else "0"
    if v is None:
        return "null"
    if isinstance(v, (int,)):
        return str(v)
    if isinstance(v, float):
        return str(int(v)) if v == int(v) else repr(v)
    if isinstance(v, str):
        return v
    if isinstance(v, dict):
        if "_err" in v:
            return "ERR"
        if "_none" in v:
            return "NONE"
        return "{" + ",".join("%s:%s" % (k, val_str(x)) for k, x in sorted(v.items())) + "}"
    if isinstance(v, list):
        return "[" + ",".join(val_str(x) for x in v) + "]"
    return str(v)


class Malformed(Exception):
    pass


def group(recs, doc, tmap):
    """recs: list of flat records of one session (timestamps stripped or not).
    Returns list of step dicts: k in init/eventless/internal/idle/external/cancel/exit (+ 'malformed')."""
    ids = doc.ids
    root_name = None

    def sid(name):
        if name in ids:
            return ids[name]
        return 1 if name.startswith("__id") else -1   # generated name = the <scxml> root

    def tid(t):
        e = tmap.get(str(t))
        if e is None:
            return -1
        st, kind, idx = e
        if st.startswith("__id") and st not in ids:
            return doc.root.init_t.id
        try:
            return doc.tid_of(st, kind, idx)
        except Exception:
            return -1

    def conv(r):
        k = r[0]
        if k == "E":
            return obs_rec("enter", sid(r[1]))
        if k == "X":
            return obs_rec("exit", sid(r[1]))
        if k == "M":
            cfg = sorted(x for x in (sid(n) for n in r[3]) if x != 1)
            return obs_rec("mark", 0, val_str(r[1]), [val_str(x) for x in r[2]], cfg)
        if k in ("IS", "IQ"):
            # payload text "n=v;n2=v2"; booleans are 1/0 on the specification's side (as in marks)
            pl = r[2] if len(r) > 2 and isinstance(r[2], str) else ""
            pl = ";".join(x[:-5] + "=1" if x.endswith("=true") else x[:-6] + "=0" if x.endswith("=false") else x for x in pl.split(";"))
            return obs_rec("ienq", 0, pl, r[1].split("."))
        if k == "CI":
            return obs_rec("cancelinvoke")
        return None

    steps = []
    i = 0
    n = len(recs)
    # every record has a trailing timestamp
    R = []
    for r in recs:
        R.append(r[:-1])

    def take_obs(j, stop):
        out = []
        while j < n and R[j][0] not in stop:
            o = conv(R[j])
            if o is None:
                if R[j][0] in ("G", "H", "HK"):
                    j += 1
                    continue
                raise Malformed("unexpected %s at %d" % (R[j][0], j))
            if not (o["k"] in ("enter", "exit") and o["s"] == 1):
                out.append(o)
            j += 1
        return out, j

    senq_last = []          # events queued during the last selection that was parsed

    def selection(j, kind):
        """R[j] is SE or SV; returns (ts, gv, j after EN)"""
        assert R[j][0] == kind
        j += 1
        gv = {}
        del senq_last[:]
        while j < n and R[j][0] in ("G", "IQ", "IS", "HK"):
            if R[j][0] == "G":
                try:
                    gv[int(R[j][1])] = bool(R[j][2]) if isinstance(R[j][2], bool) else None
                except Exception:
                    pass
            elif R[j][0] in ("IQ", "IS"):
                # an event queued *during* the selection (a guard that failed to evaluate: error.execution)
                senq_last.append(R[j][1].split("."))
            j += 1
        if j >= n or R[j][0] != "EN":
            raise Malformed("no EN after %s at %d" % (kind, j))
        ts = [tid(t) for t in R[j][1]]
        return ts, [[k, v] for k, v in sorted(gv.items()) if v is not None], j + 1

    def micro(j):
        if j < n and R[j][0] == "MS":
            obs, j2 = take_obs(j + 1, ("ME",))
            if j2 >= n:
                raise Malformed("no ME")
            return True, obs, j2 + 1
        return False, [], j

    def step(k, ev=None, ts=None, gv=None, obs=None, micro_=False, elchk=True, evrec=None, pre=None, egv=None, senq=None, esenq=None):
        return {"k": k, "ev": ev or [], "ts": ts or [], "gv": gv or [], "obs": obs or [], "micro": micro_,
                "elchk": elchk, "pre": pre or [], "evrec": evrec, "egv": egv or [], "senq": senq or [], "esenq": esenq or []}

    try:
        if n == 0 or R[0][0] != "INIT":
            raise Malformed("no INIT")
        obs, i = take_obs(1, ("LOOP", "END"))
        steps.append(step("init", obs=obs))
        if i < n and R[i][0] == "LOOP":
            i += 1
        elchk = False
        elgv = []
        elsq = []
        while i < n:
            k = R[i][0]
            if k == "SE":
                ts, gv, i = selection(i, "SE")
                sq = list(senq_last)
                if ts:
                    m, obs, i = micro(i)
                    steps.append(step("eventless", ts=ts, gv=gv, obs=obs, micro_=m, senq=sq))
                    elchk = False
                else:
                    elchk = True
                    elgv = gv
                    elsq = sq
            elif k == "IR":
                evrec = R[i][1]
                ts, gv, i = selection(i + 1, "SV")
                sq = list(senq_last)
                m, obs, i = micro(i)
                steps.append(step("internal", ev=evrec["name"].split("."), ts=ts, gv=gv, obs=obs, micro_=m,
                                  elchk=elchk, evrec=evrec, egv=elgv if elchk else [], senq=sq, esenq=elsq if elchk else []))
                elchk = False
            elif k == "IDLE":
                steps.append(step("idle", elchk=elchk, egv=elgv if elchk else [], esenq=elsq if elchk else []))
                elchk = False
                i += 1
            elif k == "XR":
                evrec = R[i][1]
                if evrec["name"] == "error.platform.cancel":
                    steps.append(step("cancel", evrec=evrec))
                    i += 1
                    continue
                pre, i = take_obs(i + 1, ("SV",))
                ts, gv, i = selection(i, "SV")
                sq = list(senq_last)
                m, obs, i = micro(i)
                steps.append(step("external", ev=evrec["name"].split("."), ts=ts, gv=gv, obs=obs, micro_=m,
                                  evrec=evrec, pre=pre, senq=sq))
            elif k in ("M", "IQ", "IS", "CI", "E", "X"):
                # content outside any bracket: exitInterpreter (after the loop) or invoke phase
                obs, i = take_obs(i, ("LEND", "END", "SE", "IDLE", "IR", "XR"))
                if i < n and R[i][0] in ("LEND", "END"):
                    steps.append(step("exit", obs=obs))
                else:
                    steps.append(step("invoke", obs=obs))
            elif k == "LEND":
                if not steps or steps[-1]["k"] != "exit":
                    steps.append(step("exit"))
                i += 1
            elif k == "END":
                i += 1
            elif k in ("G", "H", "HK"):
                i += 1
            else:
                raise Malformed("unexpected %s at %d" % (k, i))
    except Malformed as e:
        steps.append({"k": "malformed", "ev": [], "ts": [], "gv": [], "obs": [], "micro": False, "elchk": False,
                      "pre": [], "evrec": None, "egv": [], "senq": [], "esenq": [], "why": str(e)})
    return steps


def trace_for_tlc(doc_index, sent, steps, final, doc):
    """the ndjson line for the trace specifications (uniform records)"""
    out = []
    for s in steps:
        er = s.get("evrec")
        evf = [val_str(er.get(k)) for k in ("name", "type", "sendid", "origin", "origintype", "invokeid", "data")] if er else []
        out.append({"k": s["k"], "ev": s["ev"], "ts": s["ts"], "gv": s["gv"],
                    "obs": [o for o in s["obs"] if o["k"] != "cancelinvoke"], "micro": s["micro"],
                    "elchk": s["elchk"], "pre": s["pre"], "egv": s["egv"], "evf": evf,
                    "senq": s.get("senq", []), "esenq": s.get("esenq", [])})
    fin = sorted(x for x in (doc.ids.get(nm, 1 if nm.startswith("__id") else -1) for nm in (final or [])) if x != 1)
    return {"d": doc_index, "sent": sent, "steps": out, "final": fin, "hasfinal": final is not None}
