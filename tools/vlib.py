"""Shared machinery of the checks: building the harness, running TLC, running the harness, evidence,
known findings, verdict output."""
import json
import os
import re
import shutil
import subprocess
import sys
import time

VERIF = os.path.dirname(os.path.dirname(os.path.abspath(__file__)))
SPEC = os.path.join(VERIF, "spec")
HARNESS = os.path.join(VERIF, "harness")
VH = os.path.join(HARNESS, "target", "debug", "vh")
WORK = os.path.join(VERIF, "work")
EVID = os.path.join(VERIF, "evidence")
REPLAYS = os.path.join(VERIF, "replays")
KNOWN = os.path.join(VERIF, "known_findings.json")


class ToolError(Exception):
    pass


def log(*a):
    print(*a, file=sys.stderr, flush=True)


def workdir(name):
    d = os.path.join(WORK, "%s-%d" % (name, os.getpid()))
    if os.path.exists(d):
        shutil.rmtree(d)
    os.makedirs(d)
    return d


def build_harness():
    """(re)builds the harness against /repo's current working tree, hooks enabled (cfg rfsm_verif)."""
    lock_src = "/repo/Cargo.lock"
    lock_dst = os.path.join(HARNESS, "Cargo.lock")
    if not os.path.exists(lock_dst):
        shutil.copy(lock_src, lock_dst)
    env = dict(os.environ, CARGO_NET_OFFLINE="true")
    t0 = time.time()
    p = subprocess.run(["cargo", "build", "--offline", "--quiet"], cwd=HARNESS, env=env, stdout=subprocess.PIPE,
                       stderr=subprocess.STDOUT, text=True)
    if p.returncode != 0:
        # a stale lock file (dependencies of /repo changed) is repaired once
        shutil.copy(lock_src, lock_dst)
        p = subprocess.run(["cargo", "build", "--offline", "--quiet"], cwd=HARNESS, env=env, stdout=subprocess.PIPE,
                           stderr=subprocess.STDOUT, text=True)
    if p.returncode != 0:
        raise ToolError("harness build failed:\n" + p.stdout[-4000:])
    # this run works with its own copy of the binary: another check may rebuild the harness meanwhile
    global VH
    built = os.path.join(HARNESS, "target", "debug", "vh")
    os.makedirs(WORK, exist_ok=True)
    mine = os.path.join(WORK, "vh-%d" % os.getpid())
    for attempt in range(20):
        try:
            shutil.copy2(built, mine)
            break
        except OSError:
            time.sleep(0.5)
    else:
        raise ToolError("cannot copy the harness binary")
    VH = mine
    import atexit
    atexit.register(lambda: os.path.exists(mine) and os.remove(mine))
    log("[build] harness ok in %.1fs" % (time.time() - t0))


_TLC_STATS = re.compile(r"(\d+) states generated, (\d+) distinct states found")


def run_tlc(module, cfg, wd, env=None, workers=8, timeout=1200, heap="6g", consts=None, dfs=False, coverage=False, simulate=None, expect_violation=None):
    """runs TLC on spec/<module>.tla with spec/<cfg> inside work dir wd; returns dict(out=path, states, distinct,
    lines=[...PrintT tuples as strings])"""
    for f in os.listdir(SPEC):
        if f.endswith(".tla"):
            shutil.copy(os.path.join(SPEC, f), wd)
    cfg_text = open(os.path.join(SPEC, cfg)).read()
    if consts:
        for k, v in consts.items():
            cfg_text = re.sub(r"CONSTANT\s+%s\s*=\s*\S+" % re.escape(k), "CONSTANT %s = %s" % (k, v), cfg_text)
    cfgname = module + ".run.cfg"
    open(os.path.join(wd, cfgname), "w").write(cfg_text)
    e = dict(os.environ)
    jopts = "-Xss1g -Xmx%s -Dfile.encoding=UTF-8 -Dsun.stdout.encoding=UTF-8 -Dstdout.encoding=UTF-8" % heap
    if dfs:
        jopts += " -Dtlc2.tool.queue.IStateQueue=StateDeque"
    e["JAVA_TOOL_OPTIONS"] = jopts
    e.update(env or {})
    out = os.path.join(wd, module + ".out")
    cmd = ["timeout", str(timeout), "tlc", "-workers", str(workers), "-metadir", os.path.join(wd, "states-" + module),
           "-cleanup", "-noGenerateSpecTE", "-config", cfgname]
    if coverage:
        cmd += ["-coverage", "1"]
    if simulate:
        cmd += ["-simulate", "num=%d" % simulate[0], "-depth", str(simulate[1])]
        if len(simulate) > 2:
            cmd += ["-seed", str(simulate[2])]
    cmd.append(module + ".tla")
    t0 = time.time()
    with open(out, "w") as fo:
        p = subprocess.run(cmd, cwd=wd, env=e, stdout=fo, stderr=subprocess.STDOUT)
    dt = time.time() - t0
    text = open(out, errors="replace").read()
    m = None
    for m in _TLC_STATS.finditer(text):
        pass
    res = {"out": out, "rc": p.returncode, "wall": dt, "states": int(m.group(1)) if m else 0,
           "distinct": int(m.group(2)) if m else 0, "text": text}
    if p.returncode == 124:
        raise ToolError("TLC timed out on %s after %ds" % (module, timeout))
    if expect_violation:
        # a configuration that describes a known-wrong mechanism: TLC must refute it
        shutil.rmtree(os.path.join(wd, "states-" + module), ignore_errors=True)
        res["refuted"] = any((pat % expect_violation) in text for pat in ("Invariant %s is violated", "property %s is violated", "property %s was violated"))
        return res
    if simulate:
        if p.returncode != 0 or "Error:" in text:
            tail = "\n".join(l for l in text.splitlines() if not l.startswith("<<"))[-3000:]
            raise ToolError("TLC simulation failed on %s (rc=%d):\n%s" % (module, p.returncode, tail))
    elif "Model checking completed. No error has been found." not in text:
        tail = "\n".join(l for l in text.splitlines() if not l.startswith("<<"))[-3000:]
        raise ToolError("TLC did not complete cleanly on %s (rc=%d):\n%s" % (module, p.returncode, tail))
    shutil.rmtree(os.path.join(wd, "states-" + module), ignore_errors=True)
    return res


def tlc_tuples(text, head):
    """extracts PrintT'ed tuples <<"HEAD", ...>> (possibly spanning lines) as raw strings"""
    out = []
    buf = None
    for line in text.splitlines():
        if buf is None:
            if line.startswith('<<"%s"' % head) or line.startswith('<< "%s"' % head):
                buf = line
            else:
                continue
        else:
            buf += " " + line.strip()
        if buf.count("<<") == buf.count(">>"):
            out.append(buf)
            buf = None
    return out


def parse_tla_value(s):
    """parses a printed TLA+ value made of tuples, strings, ints, booleans into Python lists"""
    pos = [0]

    def ws():
        while pos[0] < len(s) and s[pos[0]] in " \n\t,":
            pos[0] += 1

    def val():
        ws()
        if s.startswith("<<", pos[0]):
            pos[0] += 2
            out = []
            while True:
                ws()
                if s.startswith(">>", pos[0]):
                    pos[0] += 2
                    return out
                out.append(val())
        if s[pos[0]] == "{":
            # a set: returned as a list
            pos[0] += 1
            out = []
            while True:
                ws()
                if s[pos[0]] == "}":
                    pos[0] += 1
                    return out
                out.append(val())
        if s[pos[0]] == '"':
            j = pos[0] + 1
            buf = ""
            while s[j] != '"':
                if s[j] == "\\":
                    j += 1
                buf += s[j]
                j += 1
            pos[0] = j + 1
            return buf
        m = re.match(r"-?\d+", s[pos[0]:])
        if m:
            pos[0] += len(m.group(0))
            return int(m.group(0))
        for w, v in (("TRUE", True), ("FALSE", False)):
            if s.startswith(w, pos[0]):
                pos[0] += len(w)
                return v
        raise ValueError("cannot parse TLA value at %d: %r" % (pos[0], s[pos[0]:pos[0] + 30]))

    return val()


def run_harness(cmd, jobs, wd, threads=12, timeout=1800, name="jobs", isolate=False):
    """writes jobs (list of dicts) as ndjson, runs `vh <cmd> jobs out threads`, returns list of results by id.
    isolate: if the harness process dies (abort / resource exhaustion caused by the code under test) the batch is bisected;
    a job that kills its process on its own gets the result {"died": rc, "tail": ..}"""
    t0 = time.time()
    counter = [0]

    def limit():
        import resource
        resource.setrlimit(resource.RLIMIT_AS, (24 << 30, 24 << 30))

    import threading
    lock = threading.Lock()

    def run(batch, thr):
        with lock:
            counter[0] += 1
            k = counter[0]
        jf = os.path.join(wd, "%s.%d.ndjson" % (name, k))
        of = os.path.join(wd, "%s.%d.out.ndjson" % (name, k))
        with open(jf, "w") as f:
            for j in batch:
                f.write(json.dumps(j) + "\n")
        p = subprocess.run(["timeout", str(timeout), VH, cmd, jf, of, str(thr)], stdout=subprocess.PIPE,
                           stderr=subprocess.STDOUT, text=True, errors="replace", preexec_fn=limit)
        got = {}
        if os.path.exists(of):
            for line in open(of):
                line = line.strip()
                if line:
                    try:
                        r = json.loads(line)
                        got[r.get("id")] = r
                    except Exception:
                        pass
        return p.returncode, p.stdout[-2000:], got

    def solve(batch, thr):
        rc, tail, got = run(batch, thr)
        if rc == 0:
            return got
        if not isolate:
            raise ToolError("harness %s failed rc=%d: %s" % (cmd, rc, tail))
        # every job again in a process of its own (8 at a time, short time limit): the ones that kill or hang their
        # process are identified, the others keep their results
        from concurrent.futures import ThreadPoolExecutor
        nonlocal timeout
        timeout = min(timeout, 45)

        def one(j):
            rc1, tail1, got1 = run([j], 1)
            if rc1 == 0 and j["id"] in got1:
                return got1[j["id"]]
            return {"id": j["id"], "died": rc1, "tail": tail1}
        out = {}
        with ThreadPoolExecutor(max_workers=8) as ex:
            for r in ex.map(one, batch):
                out[r["id"]] = r
        return out

    res = solve(list(jobs), threads)
    log("[harness] %s: %d jobs in %.1fs" % (cmd, len(jobs), time.time() - t0))
    return res


# ---------------------------------------------------------------- findings / verdicts
def load_known():
    if not os.path.exists(KNOWN):
        return []
    return json.load(open(KNOWN)).get("findings", [])


def write_replay(prop, name, obj):
    os.makedirs(REPLAYS, exist_ok=True)
    p = os.path.join(REPLAYS, "%s-%s.json" % (prop, name))
    with open(p, "w") as f:
        json.dump(obj, f, indent=1)
    return p


class Verdicts:
    """collects violations of one property, separates known findings, prints the interface lines"""

    def __init__(self, prop):
        self.prop = prop
        self.known = [k for k in load_known() if k["property"] == prop and k.get("status") == "known"]
        self.violations = []      # (key, what, replay obj)
        self.known_hits = {}

    def report(self, key, what, replay):
        """key: the specific failing input class / call site"""
        for k in self.known:
            if re.fullmatch(k["key"], key):
                self.known_hits.setdefault(k["key"], [k, 0])[1] += 1
                return
        self.violations.append((key, what, replay))

    def finish(self):
        for key, (k, n) in sorted(self.known_hits.items()):
            print("KNOWN-FINDING: property=%s %s (%d occurrence(s) in this run; key %s)" % (self.prop, k["what"], n, key))
        if self.violations:
            cnt = {}
            for (key, _, _) in self.violations:
                cnt[key] = cnt.get(key, 0) + 1
            log("violation keys: %s" % sorted(cnt.items(), key=lambda kv: -kv[1])[:40])
            seen = set()
            for i, (key, what, replay) in enumerate(self.violations):
                if key in seen:
                    continue
                seen.add(key)
                if len(seen) > 5:
                    break
                path = write_replay(self.prop, re.sub(r"[^A-Za-z0-9_.-]+", "_", key)[:60] or str(i),
                                    {"property": self.prop, "key": key, "what": what, "replay": replay})
                print("VIOLATION property=%s replay=%s" % (self.prop, path))
                log("  %s: %s" % (key, what))
            return 1
        return 0


def write_evidence(prop, tier, seed, level, coverage, wall, violations, assumptions):
    os.makedirs(EVID, exist_ok=True)
    ev = {"property_id": prop, "tier": tier, "seed": seed, "level": level, "coverage": coverage,
          "assumptions": assumptions, "wall_s": round(wall, 2), "violations": violations}
    with open(os.path.join(EVID, prop + ".json"), "w") as f:
        json.dump(ev, f, indent=1)
