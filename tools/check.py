#!/usr/bin/env python3
"""Driver of all checks:  tools/check.py <Cxx> [--tier quick|thorough] | setup | selftest

exit 0: property held on everything explored (KNOWN-FINDING lines allowed)
exit 1: a line `VIOLATION property=<id> replay=<path>` was printed
exit 2: tool error / timeout (never together with a VIOLATION line)
"""
import argparse
import json
import os
import random
import re
import sys
import time
import traceback

sys.path.insert(0, os.path.dirname(os.path.abspath(__file__)))
import docgen          # noqa: E402
import syntaxgen       # noqa: E402
import tracelib        # noqa: E402
import vlib            # noqa: E402
from vlib import ToolError, log  # noqa: E402

CHECKS = {}


def check(name):
    def deco(f):
        CHECKS[name] = f
        return f
    return deco


# ---------------------------------------------------------------------------------------------
# core pipeline: documents -> TLC(Session) -> REPLAY stimuli -> real sessions -> TLC(trace spec)
# ---------------------------------------------------------------------------------------------
CLASS_OWNER = {
    "enabled": "sel", "order": "sel",
    "rtc-eventless-first": "rtc", "rtc-iq-empty": "rtc", "rtc-fifo": "rtc", "rtc-idle-with-iq": "rtc",
    "xorder": "rtc", "noop": "rtc",
    "ienq": "done", "exit": "done", "final": "done", "afterfinal": "done",
    "shape": "other", "trunc": "other",
}


def explore_docs(docs, wd, max_ev, max_q=0, workers=8, timeout=5400):
    """TLC explores Session.tla for all docs; returns (tlc result, sorted list of (docidx, [events]))"""
    open(os.path.join(wd, "docs.json"), "w").write(docgen.to_json(docs))
    res = vlib.run_tlc("Session", "Session.cfg", wd, env={"DOCS": "docs.json"}, workers=workers, timeout=timeout,
                       consts={"MaxEv": max_ev, "MaxQ": max_q})
    reps = set()
    for t in vlib.tlc_tuples(res["text"], "REPLAY"):
        v = vlib.parse_tla_value(t)
        reps.add((v[1], tuple(".".join(e) for e in v[2])))
    res["text"] = ""
    return res, sorted(reps)


def run_sessions(docs, stimuli, wd, modes=("preload",), threads=12, extra=None):
    """runs every (doc index, events) stimulus in the real interpreter; returns list of run dicts"""
    xmls = {}
    jobs = []
    meta = {}
    jid = 0
    for (d, evs) in stimuli:
        if d not in xmls:
            xmls[d] = docs[d - 1].xml()
        for mode in modes:
            jid += 1
            job = {"id": jid, "xml": xmls[d], "events": list(evs), "mode": mode}
            ps = getattr(docs[d - 1], "pre_sleep", 0)
            if ps:
                # give asynchronously started parts (invoked children) time before the first event
                job["mode"] = "step"
                job["events"] = [{"sleep": ps}] + list(evs)
            if docs[d - 1].dm == "ecmascript":
                job["options"] = {"ecma:strict": ""}
            if extra:
                job.update(extra)
            jobs.append(job)
            meta[jid] = (d, evs, mode)
    results = vlib.run_harness("run", jobs, wd, threads=threads)
    runs = []
    for jid, (d, evs, mode) in meta.items():
        r = results.get(jid)
        if r is None:
            raise ToolError("no result for job %d" % jid)
        runs.append({"id": jid, "d": d, "events": list(evs), "mode": mode, "res": r})
    return runs


def runs_to_traces(docs, runs):
    """-> (list of trace dicts for TLC (1-based index = position), anomalies list)"""
    traces = []
    anomalies = []
    for run in runs:
        r = run["res"]
        doc = docs[run["d"] - 1]
        if "parse_error" in r or "harness_panic" in r or "roundtrip_error" in r:
            anomalies.append((run, "parse_error" if "parse_error" in r else "harness"))
            continue
        if r.get("panic") or r.get("stall"):
            anomalies.append((run, "panic" if r.get("panic") else "stall"))
        steps = tracelib.group(r["sessions"][0]["recs"], doc, r["tmap"])
        run["steps"] = steps
        t = tracelib.trace_for_tlc(run["d"], [e.split(".") for e in run["events"]], steps, r.get("final"), doc)
        t["run"] = run["id"]
        traces.append(t)
        run["trace_index"] = len(traces)
    return traces, anomalies


def validate_traces(module, traces, wd, workers=8, timeout=5400, chunk=6000):
    """-> (tlc result, {trace index: class or 'ok'}); the traces are judged in chunks (one TLC run each: a very large
    ndjson file makes TLC spend its time in garbage collection)"""
    verdict = {}
    expected = {}
    total = {"distinct": 0, "states": 0, "wall": 0.0}
    res = None
    for lo in range(0, max(1, len(traces)), chunk):
        part = traces[lo:lo + chunk]
        with open(os.path.join(wd, "traces.ndjson"), "w") as f:
            for t in part:
                f.write(json.dumps(t) + "\n")
        res = vlib.run_tlc(module, module + ".cfg", wd, env={"DOCS": "docs.json", "TRACES": "traces.ndjson"},
                           workers=workers, timeout=timeout)
        n = 0
        for t in vlib.tlc_tuples(res["text"], "ACCEPT"):
            v = vlib.parse_tla_value(t)
            verdict[v[1] + lo] = ("ok", 0)
            n += 1
        for t in vlib.tlc_tuples(res["text"], "REJECT"):
            v = vlib.parse_tla_value(t)
            verdict[v[1] + lo] = (v[3], v[2])
            n += 1
            if len(v) > 4:
                expected[v[1] + lo] = v[4]
        res["text"] = ""
        for k in total:
            total[k] += res.get(k, 0)
        if n != len(part):
            raise ToolError("%s judged %d of %d traces" % (module, n, len(part)))
    res = dict(res or {})
    res.update(total)
    res["expected"] = expected
    if len(verdict) != len(traces):
        raise ToolError("%s judged %d of %d traces" % (module, len(verdict), len(traces)))
    return res, verdict


def replay_obj(docs, run, cls, pos):
    doc = docs[run["d"] - 1]
    steps = run.get("steps", [])
    return {"document": doc.name, "family": doc.family, "scxml": doc.xml(), "events": run["events"],
            "mode": run["mode"], "class": cls, "step": pos,
            "observed_step": steps[pos - 1] if 0 < pos <= len(steps) else None,
            "rerun": "python3 tools/check.py --replay <this file>"}


def nontrivial_counts(runs, docs=None):
    c = {"multi_transition_microsteps": set(), "internal_events": 0, "eventless_steps": 0, "noop_events": 0,
         "microsteps": 0, "guards_observed": 0, "steps": 0, "history_target_steps": set(), "history_default_content": 0,
         "done_events": 0, "top_final_runs": 0, "cancelled_runs": 0}
    for run in runs:
        j = docs[run["d"] - 1].j if docs else None
        ks = [s["k"] for s in run.get("steps", [])]
        if "cancel" in ks:
            c["cancelled_runs"] += 1
        elif "exit" in ks:
            c["top_final_runs"] += 1
        for i, s in enumerate(run.get("steps", [])):
            c["steps"] += 1
            if j:
                for t in s["ts"]:
                    if 0 < t <= len(j["trans"]) and any(j["kind"][x - 1] == "history" for x in j["trans"][t - 1]["tgt"]):
                        c["history_target_steps"].add((run["d"], t, tuple(o["s"] for o in s["obs"] if o["k"] == "enter")))
            for o in s["obs"]:
                if o["k"] == "mark" and o["t"].startswith("h:"):
                    c["history_default_content"] += 1
                if o["k"] == "ienq" and o["v"][:2] == ["done", "state"]:
                    c["done_events"] += 1
            if s["micro"]:
                c["microsteps"] += 1
            if len(s["ts"]) >= 2:
                c["multi_transition_microsteps"].add((run["d"], tuple(s["ts"]), tuple(s["ev"])))
            if s["k"] == "internal":
                c["internal_events"] += 1
            if s["k"] == "eventless":
                c["eventless_steps"] += 1
            if s["k"] in ("internal", "external") and not s["ts"]:
                c["noop_events"] += 1
            c["guards_observed"] += len(s["gv"])
    c["multi_transition_microsteps"] = len(c["multi_transition_microsteps"])
    c["history_target_steps"] = len(c["history_target_steps"])
    return c


def sample_trace(docs, run):
    return {"document": docs[run["d"] - 1].name, "events": run["events"], "mode": run["mode"],
            "steps": [{"k": s["k"], "ev": ".".join(s["ev"]), "ts": s["ts"],
                       "obs": ["%s:%s" % (o["k"], o["s"] or o["t"] or ".".join(o["v"])) for o in s["obs"]]}
                      for s in run.get("steps", [])][:12]}


def core_check(prop, tier, seed, docs, owner_classes, module="TraceCore", max_ev=3, max_q=0, modes=("preload",),
               determinism=False, extra_note="", min_counts=None, level_text="", nontrivial_key=None, stimuli=None,
               keyfn=None, pre=None):
    t0 = time.time()
    wd = vlib.workdir(prop)
    V = vlib.Verdicts(prop)
    vlib.build_harness()
    extra_cov = pre(V, wd) if pre else {}
    if stimuli is None:
        mc, stimuli = explore_docs(docs, wd, max_ev, max_q)
        log("[%s] TLC Session: %d docs, %d distinct states, %d behaviours (%.1fs)" % (
            prop, len(docs), mc["distinct"], len(stimuli), mc["wall"]))
    else:
        open(os.path.join(wd, "docs.json"), "w").write(docgen.to_json(docs))
        mc = {"distinct": 0, "states": 0, "wall": 0}
    runs = run_sessions(docs, stimuli, wd, modes=modes)
    traces, anomalies = runs_to_traces(docs, runs)
    tv, verdict = validate_traces(module, traces, wd)
    accepted = 0
    unjudged = {}
    for run in runs:
        ti = run.get("trace_index")
        if ti is None:
            continue
        cls, pos = verdict[ti]
        if cls == "ok":
            accepted += 1
            continue
        if cls in owner_classes:
            doc = docs[run["d"] - 1]
            key = keyfn(cls, doc, run, pos) if keyfn else \
                "%s:%s:%s" % (cls, doc.family, doc.name if doc.family == "shape" else "gen")
            ro = replay_obj(docs, run, cls, pos)
            ro["expected_by_model"] = tv.get("expected", {}).get(ti)
            V.report(key, "%s: trace rejected at step %d (%s), document %s, events %s" % (
                prop, pos, cls, doc.name, run["events"]), ro)
        else:
            unjudged[cls] = unjudged.get(cls, 0) + 1
    nondet = 0
    if determinism:
        by = {}
        for run in runs:
            by.setdefault((run["d"], tuple(run["events"])), []).append(run)
        for k, rs in by.items():
            ref = None
            for r in rs:
                sig = json.dumps([[s["k"], s["ev"], s["ts"], [(o["k"], o["s"], o["t"], o["v"]) for o in s["obs"]]]
                                  for s in r.get("steps", []) if s["k"] != "idle" or True])
                if ref is None:
                    ref = sig
                elif sig != ref:
                    nondet += 1
                    doc = docs[k[0] - 1]
                    V.report("nondeterministic:%s" % doc.family,
                             "two runs of the same document and events gave different traces",
                             replay_obj(docs, r, "nondeterministic", 0))
                    break
    counts = nontrivial_counts(runs, docs)
    if accepted == 0 or accepted < 0.5 * len(runs) and not V.violations:
        raise ToolError("%s: only %d of %d traces accepted (unjudged: %s, anomalies: %d) - nothing was decided" % (
            prop, accepted, len(runs), unjudged, len(anomalies)))
    for k, v in (min_counts or {}).items():
        if counts.get(k, 0) < v:
            raise ToolError("%s: vacuous run, %s = %d < %d" % (prop, k, counts.get(k, 0), v))
    rc = V.finish()
    cov = {
        "states": mc["distinct"] + tv["distinct"],
        "transitions": mc["states"] + tv["states"],
        "traces_validated_against_impl": accepted,
        "samples": [sample_trace(docs, r) for r in runs[:: max(1, len(runs) // 3)][:3]],
        "documents": len(docs),
        "behaviours_replayed": len(runs),
        "tlc_session_states": mc["distinct"], "tlc_trace_states": tv["distinct"],
        "evaluations": len(runs),
        "distinct_nontrivial": counts[nontrivial_key] if nontrivial_key else
        counts["multi_transition_microsteps"] + counts["internal_events"] + counts["eventless_steps"],
        "rule": "every maximal behaviour of Session.tla (all external event sequences up to MaxEv=%d over each "
                "document's alphabet) is replayed in the real interpreter and its recorded trace validated by %s.tla; "
                "non-trivial = microsteps with >= 2 transitions (distinct doc/transition set/event) + internal-event "
                "steps + eventless steps" % (max_ev, module),
        "counters": counts,
        "unjudged_by_class": unjudged,
        "anomalies": len(anomalies),
        "nondeterministic_pairs": nondet,
        "exhaustive": True,
    }
    cov.update(extra_cov)
    vlib.write_evidence(prop, tier, seed, "model_checking", cov, time.time() - t0, len(V.violations),
                        ["the tracer callbacks and the mark/g actions report what the interpreter did (observation "
                         "layer of the harness)", "documents are those of the generated families: " + extra_note,
                         "Sem.tla transcribes the W3C algorithm; TLC explores it exhaustively only up to the stated bounds"])
    return rc


def family(seed, tier, shapes=True, nrand=0, small=0, small_sample=None, npar=None, **kw):
    docs = []
    if shapes:
        docs += docgen.shape_docs()
    if npar is None:
        npar = max(10, nrand // 3)
    docs += docgen.par_docs(seed, npar, history=kw.get("history", True))
    if nrand:
        docs += docgen.rand_docs(seed, nrand, **kw)
    if small:
        docs += docgen.small_docs(small, random.Random(seed), small_sample, history=kw.get("history", True))
    return docs


def no_history(docs):
    return [d for d in docs if "history" not in d.j["kind"]]


@check("C01")
def c01(tier, seed):
    if tier == "quick":
        docs = family(seed, tier, nrand=60, small=3, small_sample=4) + docgen.history_docs() + docgen.final_docs()
        ev = 3
    else:
        docs = family(seed, tier, nrand=240, small=4, small_sample=8) + docgen.history_docs() + docgen.final_docs()
        ev = 3
    return core_check("C01", tier, seed, docs,
                      {"exit-inactive", "enter-active", "enter-history", "snapshot", "illegal", "final", "exit-snapshot"},
                      module="TraceC01", max_ev=ev, extra_note="F-shape + F-rand + F-small",
                      min_counts={"multi_transition_microsteps": 3, "microsteps": 100})


@check("C02")
def c02(tier, seed):
    if tier == "quick":
        docs = no_history(family(seed, tier, nrand=80, small=3, small_sample=4, history=False))
        ev = 3
    else:
        docs = no_history(family(seed, tier, nrand=300, small=4, small_sample=8, history=False))
        ev = 3
    return core_check("C02", tier, seed, docs, {"enabled", "order"}, max_ev=ev, modes=("preload", "step"),
                      determinism=True, extra_note="history-free F-shape + F-rand + F-small",
                      min_counts={"multi_transition_microsteps": 3, "microsteps": 100})


@check("C03")
def c03(tier, seed):
    if tier == "quick":
        docs = family(seed, tier, nrand=80)
        ev = 3
    else:
        docs = family(seed, tier, nrand=300)
        ev = 3
    # platform errors (error.execution) are internal events like any other: content blocks that raise, send to #_internal
    # and fail in between (the C08 family) exercise the FIFO order of mixed enqueues
    docs += docgen.c08_docs(random.Random(seed + 7), 4 if tier == "quick" else 16, max_variants=5)
    # guards that fail to evaluate queue error.execution during the *selection* (outside any microstep): the macrostep is not
    # over while that event waits
    docs += docgen.guard_error_docs()
    return core_check("C03", tier, seed, docs,
                      {"rtc-eventless-first", "rtc-iq-empty", "rtc-fifo", "rtc-idle-with-iq", "xorder", "noop"},
                      max_ev=ev, max_q=1, modes=("preload", "step"),
                      extra_note="F-shape + F-rand with raise chains, eventless counters",
                      min_counts={"internal_events": 20, "eventless_steps": 5, "noop_events": 20})


@check("C06")
def c06(tier, seed):
    hist = lambda ds: [d for d in ds if "history" in d.j["kind"]]
    if tier == "quick":
        docs = docgen.history_docs() + hist(family(seed, tier, nrand=120, small=3, small_sample=3))
        ev = 4
    else:
        docs = docgen.history_docs() + hist(family(seed, tier, nrand=500, small=4, small_sample=8))
        ev = 4
    return core_check("C06", tier, seed, docs, {"enabled", "order"}, max_ev=ev,
                      extra_note="history templates + history-containing F-rand/F-small documents",
                      min_counts={"history_target_steps": 20, "history_default_content": 5},
                      nontrivial_key="history_target_steps")


@check("C07")
def c07(tier, seed):
    fin = lambda ds: [d for d in ds if "final" in d.j["kind"]]
    if tier == "quick":
        docs = docgen.final_docs() + fin(family(seed, tier, nrand=150, history=False))
        ev = 4
    else:
        docs = docgen.final_docs() + fin(family(seed, tier, nrand=500))
        ev = 4
    return core_check("C07", tier, seed, docs, {"ienq", "exit", "final", "afterfinal"}, max_ev=ev,
                      extra_note="final-state templates + final-containing F-rand documents",
                      min_counts={"done_events": 20, "top_final_runs": 20, "cancelled_runs": 20},
                      nontrivial_key="done_events")


@check("C19")
def c19(tier, seed):
    rng = random.Random(seed)
    toks = docgen.C19_TOKENS
    if tier == "quick":
        docs = docgen.c19_docs(toks, rng, two_token=30, lists=10)
        names = docgen.c19_names(toks, rng, 80)
    else:
        docs = docgen.c19_docs(toks, rng, two_token=None, lists=60)
        names = docgen.c19_names(toks, rng, 1000)
    stimuli = []
    for i in range(len(docs)):
        ns = list(names)
        rng.shuffle(ns)
        ns = ns[:150]          # (thorough: a different sample of the 1000 names per document)
        stimuli.append((i + 1, tuple([".".join(n) for n in ns[: len(ns) // 2]] + ["go"] + [".".join(n) for n in ns[len(ns) // 2:]])))

    def key(cls, doc, run, pos):
        st = run["steps"][pos - 1]
        return "match:%s~%s" % (doc.name.split(":", 1)[1], ".".join(st["ev"]))

    return core_check("C19", tier, seed, docs, {"enabled"}, stimuli=stimuli, keyfn=key,
                      extra_note="one probe document per descriptor list (tokens incl. non-ASCII, composed/decomposed, "
                                 "astral), every name sent as external event and a subset raised internally",
                      min_counts={"internal_events": 100, "microsteps": 1000}, nontrivial_key="microsteps")


@check("C09")
def c09(tier, seed):
    rng = random.Random(seed)
    docs = docgen.binding_docs()
    base = docgen.shape_docs() + docgen.history_docs() + docgen.rand_docs(seed, 30 if tier == "quick" else 150)
    docs += [docgen.rebuild(d, in_marks=True, family="in") for d in base]
    docs += docgen.null_docs() + docgen.invoke_in_docs()

    def key(cls, doc, run, pos):
        return "%s:%s:%s" % (cls, doc.family, doc.name if doc.family in ("binding", "null", "invoke-in") else doc.dm)

    def part_b(V, wd):
        """_event fields and system variables: validated by TraceC09.tla"""
        bdocs = docgen.c09_event_docs("rfsm-expression") + docgen.c09_event_docs("ecmascript")
        open(os.path.join(wd, "docs.json"), "w").write(docgen.to_json(bdocs))
        evs = ("go", {"name": "x1", "params": {"k": "v", "n": 3}}, {"name": "x2", "content": "hello"},
               {"name": "x3", "sendid": "S9", "origin": "#_scxml_77", "origintype": "http://www.w3.org/TR/scxml/#SCXMLEventProcessor"},
               "plain.event", {"name": "x4", "content": 7})
        stim = []
        for i, d in enumerate(bdocs):
            stim.append((i + 1, evs if d.family == "c09ev" else ("e1",) * 5))
        runs = run_sessions(bdocs, [(d, tuple(json.dumps(e) if isinstance(e, dict) else e for e in ev)) for d, ev in stim], wd)
        return bdocs, runs

    def pre(V, wd):
        # run part B first (its own documents, its own trace specification)
        import copy
        bdocs = docgen.c09_event_docs("rfsm-expression") + docgen.c09_event_docs("ecmascript")
        evs = ["go", {"name": "x1", "params": {"k": "v", "n": 3}}, {"name": "x2", "content": "hello"},
               {"name": "x3", "sendid": "S9", "origin": "#_scxml_77", "origintype": "http://www.w3.org/TR/scxml/#SCXMLEventProcessor"},
               "plain.event", {"name": "x4", "content": 7}]
        jobs = []
        for i, d in enumerate(bdocs):
            job = {"id": i + 1, "xml": d.xml(), "events": evs if d.family == "c09ev" else ["e1"] * 5, "mode": "preload"}
            if d.dm == "ecmascript":
                job["options"] = {"ecma:strict": ""}
            jobs.append(job)
        results = vlib.run_harness("run", jobs, wd, name="partb")
        runs = []
        for i, d in enumerate(bdocs):
            runs.append({"id": i + 1, "d": i + 1, "events": ["<see job>"], "mode": "preload", "res": results[i + 1]})
        traces, anomalies = runs_to_traces(bdocs, runs)
        for t in traces:
            for st in t["steps"]:
                for o in st["obs"]:
                    if o["k"] == "mark" and o["t"] == "ev":
                        # an absent field is "blank": undefined (ECMAScript) and null are the same observation
                        o["v"] = ["null" if x == "NONE" else x for x in o["v"]]
        with open(os.path.join(wd, "traces.ndjson"), "w") as f:
            for t in traces:
                f.write(json.dumps(t) + "\n")
        res = vlib.run_tlc("TraceC09", "TraceC09.cfg", wd, env={"TRACES": "traces.ndjson"}, timeout=600)
        acc = 0
        for t in vlib.tlc_tuples(res["text"], "ACCEPT"):
            acc += 1
        for t in vlib.tlc_tuples(res["text"], "REJECT"):
            v = vlib.parse_tla_value(t)
            run = runs[v[1] - 1]
            doc = bdocs[run["d"] - 1]
            st = run["steps"][v[2] - 1]
            tags = [o["t"] for o in st["obs"] if o["k"] == "mark"]
            what = next((tg.split(":", 1)[1] for tg in tags if tg.startswith("sysb:")), ".".join(st["ev"]))
            V.report("%s:%s:%s" % (v[3], doc.dm, what), "%s in document %s step %d: %s" % (v[3], doc.name, v[2], [
                (o["t"], o["v"]) for o in st["obs"] if o["k"] in ("mark", "ienq")]),
                     {"document": doc.name, "scxml": doc.xml(), "step": st, "class": v[3]})
        for run, kind in anomalies:
            V.report("anomaly:%s:%s" % (kind, bdocs[run["d"] - 1].name), "session %s" % kind, {"scxml": bdocs[run["d"] - 1].xml(), "res": {k: run["res"].get(k) for k in ("panic", "stall")}})
        res["text"] = ""
        return {"partb_traces": len(traces), "partb_accepted": acc, "partb_states": res["distinct"]}

    return core_check("C09", tier, seed, docs, {"guard", "order", "enabled"}, max_ev=3, keyfn=key,
                      extra_note="In() vectors marked at every evaluation point; data binding templates; null datamodel In guards; "
                                 "_event fields and system-variable write attempts (TraceC09.tla)",
                      min_counts={"microsteps": 500, "guards_observed": 50}, nontrivial_key="guards_observed", pre=pre)


@check("C08")
def c08(tier, seed):
    rng = random.Random(seed)
    docs = docgen.c08_docs(rng, 12 if tier == "quick" else 45)
    docs += docgen.c08_docs(rng, 4 if tier == "quick" else 14, dm="ecmascript", max_variants=3)
    docs += docgen.null_docs()

    def key(cls, doc, run, pos):
        st = run["steps"][pos - 1]
        return "%s:%s:%s" % (cls, doc.dm, "err" if "-err-" in doc.name else "plain")

    return core_check("C08", tier, seed, docs, {"order", "ienq", "enabled"}, max_ev=3, keyfn=key,
                      extra_note="random nested blocks (if/elseif/else, foreach, assign, raise, send #_internal, log, script) in "
                                 "onentry/onexit/transition/initial/history-default bodies, an ERR injected at each expression position",
                      min_counts={"microsteps": 500, "internal_events": 100}, nontrivial_key="internal_events")


# ---------------------------------------------------------------------------------------------
# C04 / C05: Mirror.tla (reader / serializer translation validation)
# ---------------------------------------------------------------------------------------------
def run_dump_jobs(jobs, wd, name="dump"):
    import subprocess
    jf = os.path.join(wd, name + ".ndjson")
    of = os.path.join(wd, name + ".out.ndjson")
    with open(jf, "w") as f:
        for j in jobs:
            f.write(json.dumps(j) + "\n")
    p = subprocess.run(["timeout", "900", vlib.VH, "dump", jf, of], stdout=subprocess.PIPE, stderr=subprocess.STDOUT, text=True)
    if p.returncode != 0:
        raise ToolError("vh dump failed: %s" % p.stdout[-1000:])
    res = {}
    for line in open(of):
        r = json.loads(line)
        res[r["id"]] = r
    return res


def mirror_validate(pairs, wd, name="pairs"):
    """pairs: list of dicts {hasD, D, M, ref}; -> (tlc result, {index: class or 'ok'})"""
    with open(os.path.join(wd, name + ".ndjson"), "w") as f:
        for p in pairs:
            f.write(json.dumps(p) + "\n")
    res = vlib.run_tlc("Mirror", "Mirror.cfg", wd, env={"PAIRS": name + ".ndjson"}, timeout=3000)
    verdict = {}
    for t in vlib.tlc_tuples(res["text"], "ACCEPT"):
        verdict[vlib.parse_tla_value(t)[1]] = "ok"
    for t in vlib.tlc_tuples(res["text"], "REJECT"):
        v = vlib.parse_tla_value(t)
        verdict[v[1]] = v[2]
    res["text"] = ""
    if len(verdict) != len(pairs):
        raise ToolError("Mirror judged %d of %d pairs" % (len(verdict), len(pairs)))
    return res, verdict


EMPTY_D = {"name": "", "datamodel": "", "binding": "", "script": [], "states": []}


@check("C04")
def c04(tier, seed):
    t0 = time.time()
    wd = vlib.workdir("C04")
    V = vlib.Verdicts("C04")
    vlib.build_harness()
    ndocs = 60 if tier == "quick" else 500
    jobs = []
    meta = []
    incdir = os.path.join(wd, "inc")
    os.makedirs(incdir)
    for di in range(ndocs):
        root, ab = syntaxgen.gen_doc(seed * 100000 + di, size=6 + di % 12)
        D = syntaxgen.abstract_to_D(ab, root)
        for vi, variant in enumerate(syntaxgen.VARIANTS):
            sub = os.path.join(incdir, "d%d" % di)
            text, frags = syntaxgen.serialize(root, variant, seed=seed + di * 31 + vi, frag_dir=sub)
            if frags:
                os.makedirs(sub, exist_ok=True)
                for fn, ft in frags.items():
                    open(os.path.join(sub, fn), "w").write(ft)
            jid = len(jobs) + 1
            jobs.append({"id": jid, "xml": text, "include": [sub]})
            meta.append((di, variant, D, text))
    results = run_dump_jobs(jobs, wd)
    pairs = []
    canon_index = {}
    index_of = {}
    for jid, (di, variant, D, text) in enumerate(meta, start=1):
        r = results.get(jid, {})
        if "model" not in r:
            V.report("reader-rejects:%s" % variant, "document %d variant %s is not accepted: %s" % (di, variant, str(r)[:300]),
                     {"scxml": text, "variant": variant, "result": r})
            continue
        M = syntaxgen.model_to_M(r["model"])
        pairs.append({"hasD": True, "D": D, "M": M, "ref": canon_index.get(di, 0) if variant != "canon" else 0})
        index_of[len(pairs)] = jid
        if variant == "canon":
            canon_index[di] = len(pairs)
    tv, verdict = mirror_validate(pairs, wd)
    ok = 0
    for idx, cls in verdict.items():
        if cls == "ok":
            ok += 1
            continue
        di, variant, D, text = meta[index_of[idx] - 1]
        V.report("%s:%s" % (cls, variant), "document %d variant %s: model does not mirror the document (%s)" % (di, variant, cls),
                 {"scxml": text, "variant": variant, "class": cls, "D": D, "M": pairs[idx - 1]["M"]})
    if ok == 0:
        raise ToolError("C04: no pair accepted")
    rc = V.finish()
    nstates = sum(len(m[2]["states"]) for m in meta if m[1] == "canon")
    cov = {"programs": ndocs, "disagreements_checked": len(pairs) - ok,
           "samples": [{"variant": meta[i][1], "scxml": meta[i][3][:600]} for i in (0, 3, 8) if i < len(meta)],
           "states": tv["distinct"], "transitions": tv["states"], "traces_validated_against_impl": ok,
           "evaluations": len(pairs), "distinct_nontrivial": ok,
           "rule": "random documents over all element kinds and attribute combinations (%d documents, %d states in total), each "
                   "serialised in %d lexical variants %s; the reader's model is dumped through its public fields and TLC evaluates "
                   "Mirrors(D, M) and SameModel(M_variant, M_canon) (Mirror.tla)" % (ndocs, nstates, len(syntaxgen.VARIANTS), syntaxgen.VARIANTS)}
    vlib.write_evidence("C04", tier, seed, "translation_validation", cov, time.time() - t0, len(V.violations),
                        ["the dump of the model through public fields (harness/src/dump.rs) and its canonicalisation "
                         "(tools/syntaxgen.py) are faithful", "documents are those the generator produces"])
    return rc


def run_simple_jobs(cmd, jobs, wd, name):
    import subprocess
    jf = os.path.join(wd, name + ".ndjson")
    of = os.path.join(wd, name + ".out.ndjson")
    with open(jf, "w") as f:
        for j in jobs:
            f.write(json.dumps(j) + "\n")
    p = subprocess.run(["timeout", "1800", vlib.VH, cmd, jf, of], stdout=subprocess.PIPE, stderr=subprocess.STDOUT, text=True)
    res = {}
    if os.path.exists(of):
        for line in open(of):
            try:
                r = json.loads(line)
                res[r["id"]] = r
            except Exception:
                pass
    return p.returncode, res, p.stdout[-500:]


@check("C05")
def c05(tier, seed):
    t0 = time.time()
    wd = vlib.workdir("C05")
    V = vlib.Verdicts("C05")
    vlib.build_harness()
    # ---- (3) primitives: vectors from Rfsm.tla
    mc = vlib.run_tlc("Rfsm", "RfsmVec.cfg", wd, timeout=600)
    vecs = {}
    for t in vlib.tlc_tuples(mc["text"], "VEC"):
        v = vlib.parse_tla_value(t)
        vecs[tuple(str(x) for x in v[1:])] = v
    mc["text"] = ""
    jobs = []
    meta = {}
    chars = {"ascii": "a", "latin": "\u00e9", "cjk": "\u65e5", "astral": "\U0001F600"}
    for key, v in sorted(vecs.items()):
        jid = len(jobs) + 1
        if v[1] == "data":
            jobs.append({"id": jid, "kind": "data", "value": v[2]})
            meta[jid] = ("data", v[2], v[3])
        elif v[1] == "uint":
            jobs.append({"id": jid, "kind": "uint", "hex": v[2]})
            meta[jid] = ("uint", v[2], v[3])
        else:
            n, c = v[2], v[3]
            jobs.append({"id": jid, "kind": "str", "text": chars[c] * n})
            meta[jid] = ("str", "%d x %s" % (n, c), v[4], v[5])
    rng = random.Random(seed)
    for _ in range(200 if tier == "quick" else 20000):
        jid = len(jobs) + 1
        hx = "%x" % rng.getrandbits(rng.choice([8, 16, 31, 32, 48, 59, 60, 61, 63, 64]))
        jobs.append({"id": jid, "kind": "uint", "hex": hx})
        meta[jid] = ("uint", hx, None)
    rc, res, tail = run_simple_jobs("prim", jobs, wd, "prim")
    if rc != 0:
        raise ToolError("vh prim failed: " + tail)
    prim_ok = 0
    wire_diff = 0
    for jid, m in meta.items():
        r = res.get(jid, {})
        if m[0] == "data":
            if r.get("panic") or not r.get("same") or r.get("werr") or r.get("rerr") or r.get("tag") != 0x30 + m[2]:      # the tag is written as a one-nibble number: type nibble 3
                kind = json.loads(m[1]).get("t")
                V.report("data-value:%s" % kind, "write_data/read_data round trip of %s gives %s (tag expected %s)" % (m[1][:120], r, m[2]),
                         {"value": json.loads(m[1]), "expected_tag": m[2], "result": r})
            else:
                prim_ok += 1
        elif m[0] == "uint":
            bits = len(m[1]) * 4
            if r.get("panic") or not r.get("same") or r.get("werr") or r.get("rerr"):
                V.report("uint:%s" % ("ge-2^60" if int(m[1], 16) >= 1 << 60 else "lt-2^60"),
                         "write_uint/read_uint round trip of 0x%s gives %s" % (m[1], r), {"value_hex": m[1], "result": r})
            else:
                prim_ok += 1
                if m[2] is not None and r.get("bytes") != m[2]:
                    wire_diff += 1
        else:
            representable = m[2]
            if r.get("panic") or not r.get("same"):
                V.report("string:%s" % ("ge-4096-bytes" if not representable else "lt-4096-bytes"),
                         "write_str/read_string round trip of %s: %s" % (m[1], {k: r.get(k) for k in ("same", "backlen", "len", "panic", "werr", "rerr")}),
                         {"string": m[1], "result": r})
            else:
                prim_ok += 1
    # ---- (1) structure: parse -> dump  vs  parse -> write -> read -> dump
    ndocs = 60 if tier == "quick" else 600
    djobs = []
    dmeta = []
    for di in range(ndocs):
        root, ab = syntaxgen.gen_doc(seed * 100000 + di, size=6 + di % 12)
        D = syntaxgen.abstract_to_D(ab, root)
        text, _ = syntaxgen.serialize(root, "canon")
        djobs.append({"id": 2 * di + 1, "xml": text})
        djobs.append({"id": 2 * di + 2, "xml": text, "roundtrip": True})
        dmeta.append((D, text))
    results = run_dump_jobs(djobs, wd)
    pairs = []
    pidx = {}
    for di, (D, text) in enumerate(dmeta):
        a, b = results.get(2 * di + 1, {}), results.get(2 * di + 2, {})
        if "model" not in a:
            continue
        if "model" not in b:
            V.report("roundtrip-fails", "document %d: %s" % (di, str(b)[:300]), {"scxml": text, "result": b})
            continue
        pairs.append({"hasD": False, "D": EMPTY_D, "M": syntaxgen.model_to_M(a["model"]), "ref": 0})
        pairs.append({"hasD": True, "D": D, "M": syntaxgen.model_to_M(b["model"]), "ref": len(pairs)})
        pidx[len(pairs)] = di
    tv, verdict = mirror_validate(pairs, wd)
    struct_ok = 0
    for idx, cls in verdict.items():
        if idx not in pidx:
            continue
        if cls == "ok":
            struct_ok += 1
        else:
            D, text = dmeta[pidx[idx]]
            V.report("structure:%s" % cls, "document %d: reloaded model differs (%s)" % (pidx[idx], cls),
                     {"scxml": text, "class": cls, "M_original": pairs[idx - 2]["M"], "M_reloaded": pairs[idx - 1]["M"]})
    # ---- (2) behaviour: the reloaded machine produces the same (valid) traces
    docs = no_history(family(seed, tier, nrand=30 if tier == "quick" else 120, history=False)) + docgen.history_docs() + docgen.final_docs()
    mc2, stimuli = explore_docs(docs, wd, 3)
    runs_a = run_sessions(docs, stimuli, wd)
    runs_b = run_sessions(docs, stimuli, wd, extra={"roundtrip": True})
    traces, anomalies = runs_to_traces(docs, runs_b)
    tv2, verdict2 = validate_traces("TraceCore", traces, wd)
    beh_ok = 0
    for ra, rb in zip(runs_a, runs_b):
        ti = rb.get("trace_index")
        doc = docs[rb["d"] - 1]
        if ti is None:
            V.report("behaviour:reload-fails", "document %s could not be reloaded: %s" % (doc.name, str(rb["res"])[:200]),
                     {"scxml": doc.xml(), "result": rb["res"]})
            continue
        cls, pos = verdict2[ti]
        sa = [(s["k"], s["ev"], s["ts"], [(o["k"], o["s"], o["t"], o["v"]) for o in s["obs"]]) for s in tracelib.group(ra["res"]["sessions"][0]["recs"], doc, ra["res"]["tmap"])]
        sb = [(s["k"], s["ev"], s["ts"], [(o["k"], o["s"], o["t"], o["v"]) for o in s["obs"]]) for s in rb["steps"]]
        if cls != "ok" or sa != sb:
            V.report("behaviour:%s" % (cls if cls != "ok" else "differs-from-original"),
                     "document %s events %s: the reloaded machine behaves differently" % (doc.name, rb["events"]),
                     replay_obj(docs, rb, cls, pos))
        else:
            beh_ok += 1
    if prim_ok == 0 or struct_ok == 0 or beh_ok == 0:
        raise ToolError("C05: nothing agreed (prim %d, struct %d, behaviour %d)" % (prim_ok, struct_ok, beh_ok))
    rc = V.finish()
    cov = {"programs": ndocs + len(docs), "disagreements_checked": len(V.violations) + sum(n for _, (k, n) in V.known_hits.items()),
           "samples": [{"uint_hex": m[1], "image_hex": m[2]} for m in list(meta.values())[:3]] + [{"scxml": dmeta[0][1][:400]}],
           "states": mc["distinct"] + tv["distinct"] + mc2["distinct"] + tv2["distinct"],
           "transitions": mc["states"] + tv["states"] + mc2["states"] + tv2["states"],
           "traces_validated_against_impl": beh_ok, "evaluations": len(jobs) + len(pairs) // 2 + len(runs_b),
           "distinct_nontrivial": prim_ok + struct_ok + beh_ok,
           "primitive_vectors": len(jobs), "primitive_ok": prim_ok, "wire_image_differs_from_spec": wire_diff,
           "structure_pairs": len(pairs) // 2, "structure_ok": struct_ok, "behaviour_runs": len(runs_b), "behaviour_ok": beh_ok,
           "rule": "(1) %d random documents: SameModel(dump(read(write(parse))), dump(parse)) and Mirrors(D, reloaded) by Mirror.tla; "
                   "(2) every behaviour TLC finds for %d runnable documents is replayed on the reloaded machine, validated by "
                   "TraceCore.tla and compared with the original machine's trace; (3) primitive vectors from Rfsm.tla (boundary and "
                   "irregular nibble patterns for every width, string lengths x character classes) plus random 64-bit values "
                   "through write/read" % (ndocs, len(docs))}
    vlib.write_evidence("C05", tier, seed, "translation_validation", cov, time.time() - t0, len(V.violations),
                        ["model dump and canonicalisation are faithful", "behavioural equivalence is judged on the generated documents and bounded event sequences"])
    return rc


@check("C18")
def c18(tier, seed):
    t0 = time.time()
    wd = vlib.workdir("C18")
    V = vlib.Verdicts("C18")
    vlib.build_harness()
    mc = vlib.run_tlc("Rfsm", "Rfsm.cfg", wd, timeout=900)
    mc["text"] = ""
    ndocs = 12 if tier == "quick" else 300
    jobs = []
    texts = {}
    for di in range(ndocs):
        root, ab = syntaxgen.gen_doc(seed * 100000 + 7000 + di, size=4 + di % 10)
        text, _ = syntaxgen.serialize(root, "canon")
        jobs.append({"id": di + 1, "xml": text, "max_writes": 400 if tier == "quick" else 3000})
        texts[di + 1] = text
    # directed images: one block of executable content only (the blocks of a model are written in hash order), so that the image
    # *ends* with a given kind of field - a long / short / multi-byte / 12-bit-length string, a number
    tails = ['<log expr="1"/><raise event="machine.has.completed.the.first.step"/>', '<raise event="done"/>',
             '<raise event="gr\u00f6\u00dfe.\u00fcberschritten.f\u00fcr.das.ger\u00e4t.\u65e5\u672c\u8a9e"/>',
             '<raise event="%s"/>' % ".".join(["tok%d" % q for q in range(70)]),
             '<foreach array="[1]" item="a_rather_long_item_name_for_the_loop"></foreach>',
             '<foreach array="[1]" item="it" index="a_rather_long_index_name_for_the_loop"></foreach>',
             '<log label="a label that is longer than fifteen bytes" expr="\'an expression text that is longer than fifteen bytes\'"/>',
             '<script>x = \'a script text that is longer than fifteen bytes\'</script>', '<cancel sendid="a_send_id_that_is_longer_than_fifteen_bytes"/>',
             '<assign location="x" expr="\'a value text that is longer than fifteen bytes\'"/>',
             '<send event="an.event.name.longer.than.fifteen.bytes" target="#_internal"/>']
    for tl in tails:
        for where in ("onentry", "onexit"):
            jid = len(jobs) + 1
            text = ('<scxml xmlns="http://www.w3.org/2005/07/scxml" version="1.0" datamodel="rfsm-expression"><datamodel><data id="x" expr="0"/>'
                    '</datamodel><state id="s"><%s>%s</%s></state></scxml>' % (where, tl, where))
            jobs.append({"id": jid, "xml": text, "max_writes": 400 if tier == "quick" else 3000})
            texts[jid] = text
    rc, res, tail = run_simple_jobs("cut", jobs, wd, "cut")
    if rc != 0:
        raise ToolError("vh cut failed: " + tail)
    recs = []
    rmeta = []
    for jid, r in sorted(res.items()):
        if "reads" not in r:
            continue
        L = r["len"]
        for n, ch in enumerate(r["reads"]):
            recs.append({"kind": "read", "len": L, "cut": n, "outcome": {"o": "ok", "e": "err", "p": "panic"}[ch],
                         "mode": "", "same": True, "haserr": False, "panic": ch == "p"})
            rmeta.append((jid, "read", n, L, None))
        for w in r["writes"]:
            k, mode, m, same, err = w
            recs.append({"kind": "write", "len": L, "cut": 0, "outcome": "", "mode": "short" if mode == 1 else "fail",
                         "same": same is True, "haserr": err is True, "panic": same == "panic"})
            rmeta.append((jid, "write", k, mode, m))
    if not recs:
        raise ToolError("C18: no experiments")
    with open(os.path.join(wd, "traces.ndjson"), "w") as f:
        for r in recs:
            f.write(json.dumps(r) + "\n")
    tv = vlib.run_tlc("TraceC18", "TraceC18.cfg", wd, env={"TRACES": "traces.ndjson"}, timeout=1500)
    bad = [vlib.parse_tla_value(t)[1] for t in vlib.tlc_tuples(tv["text"], "REJECT")]
    tv["text"] = ""
    for i in bad:
        jid, kind, a, b, c = rmeta[i - 1]
        r = recs[i - 1]
        if kind == "read":
            key = "read:%s-on-truncated-image" % r["outcome"] if r["cut"] < r["len"] else "read:complete-image-%s" % r["outcome"]
            what = "image of %d bytes cut after %d bytes is read as %s" % (r["len"], r["cut"], r["outcome"])
        else:
            key = "write:%s" % ("short-write-corrupts-image" if r["mode"] == "short" else "failed-write-not-reported")
            what = "write call %d (%s, accepts %s bytes): same image=%s, has_error=%s" % (a, r["mode"], c, r["same"], r["haserr"])
        V.report(key, what, {"scxml": texts[jid], "experiment": r, "detail": res[jid].get("panics")})
    ok = len(recs) - len(bad)
    rc = V.finish()
    cov = {"evaluations": len(recs), "distinct_nontrivial": sum(1 for r in recs if r["kind"] == "write" or r["cut"] < r["len"]),
           "rule": "for each of %d images written from random documents: every prefix length is read (FsmReader::read under "
                   "catch_unwind) and every write call is made short (1 byte / 0->1 byte accepted) or failing in turn; outcomes are "
                   "accepted by TraceC18.tla (Rfsm.tla CutIsError; short writes must not change the image; failed writes must set "
                   "the error state); non-trivial = experiments with an actual fault" % len(res),
           "samples": [recs[0], recs[len(recs) // 2], recs[-1]],
           "states": mc["distinct"] + tv["distinct"], "transitions": mc["states"] + tv["states"],
           "images": len(res), "accepted": ok, "exhaustive": True}
    vlib.write_evidence("C18", tier, seed, "fault_enumeration", cov, time.time() - t0, len(V.violations),
                        ["faults are injected through the Read/Write objects handed to the protocol reader/writer"])
    return rc


# ---------------------------------------------------------------------------------------------
# C12: F-odd documents, TraceC12.tla
# ---------------------------------------------------------------------------------------------
ERRX = "nope_undefined.q"


def odd_docs(dm):
    """-> list of (name, xml, {event: kind}, init_kind)"""
    hdr = '<scxml xmlns="http://www.w3.org/2005/07/scxml" version="1.0" datamodel="%s"%s>'
    dmdecl = '<datamodel><data id="x" expr="0"/><data id="loc" expr="0"/><data id="sv" expr="\'scxml\'"/><data id="arrv" expr="[1,2,3]"/></datamodel>'
    probe = '<transition event="probe"><script>mark(\'alive\')</script></transition>'
    docs = []

    def doc(name, cases, extra_states="", init_kind=None, attrs="", data=dmdecl, pre=""):
        ts = []
        kinds = {}
        for i, (kind, body) in enumerate(cases):
            ev = "o%d" % (i + 1)
            kinds[ev] = kind
            ts.append('<transition event="%s">%s</transition>' % (ev, body) if not body.startswith("<transition")
                      else body.replace("EVENT", ev))
        xml = (hdr % (dm, attrs)) + data + pre + '<state id="s">' + probe + "".join(ts) + "</state>" + extra_states + "</scxml>"
        docs.append((name + ":" + dm, xml, kinds, init_kind))

    E = quote_attr(ERRX)
    sends = [
        ("ok", '<send event="x" target="#_internal"/>'),
        ("ok", '<send event="x"/>'),
        ("expr", '<send eventexpr=%s target="#_internal"/>' % E),
        ("expr", '<send event="x" targetexpr=%s/>' % E),
        ("expr", '<send event="x" typeexpr=%s/>' % E),
        ("expr", '<send event="x" delayexpr=%s/>' % E),
        ("expr", '<send event="x" namelist="nope_undefined"/>'),
        ("expr", '<send event="x" target="#_internal"><param name="p" expr=%s/></send>' % E),
        ("expr", '<send event="x" target="#_internal"><param name="p" location=%s/></send>' % E),
        ("expr", '<send event="x" target="#_internal"><content expr=%s/></send>' % E),
        ("badtype", '<send event="x" type="x-unsupported-io-processor"/>'),
        ("badtype", '<send event="x" type="http://www.w3.org/TR/scxml/#NoSuchProcessor" delay="10ms"/>'),
        ("badtarget", '<send event="x" target="!!not a target"/>'),
        ("badtarget", '<send event="x" target="bogus://nowhere"/>'),
        ("nosession", '<send event="x" target="#_scxml_99999"/>'),
        ("nosession", '<send event="x" target="#_scxml_abc"/>'),
        ("nosession", '<send event="x" target="#_scxml_"/>'),
        ("noparent", '<send event="x" target="#_parent"/>'),
        ("noinvokeid", '<send event="x" target="#_nosuchinvoke"/>'),
        ("noinvokeid", '<send event="x" target="#_"/>'),
        ("baddelay", '<send event="x" delayexpr="\'-5s\'"/>'),
        ("baddelay", '<send event="x" delayexpr="\'soon\'"/>'),
        ("delay-internal", '<send event="x" target="#_internal" delay="1s"/>'),
        ("ok", '<send event="x" delay="5ms" id="d1"/><cancel sendid="d1"/>'),
        ("ok", '<cancel sendid="never-sent"/>'),
        ("ok", '<send event="x" targetexpr="\'#_scxml_\' + _sessionid"/>'),
        ("free", '<send eventexpr="sv" targetexpr="sv" typeexpr="sv"/>'),          # the same variable in several slots
        ("free", '<send event="x" targetexpr="sv" delayexpr="sv"/>'),
        ("ok", '<send event="x" targetexpr="\'#_scxml_\' + _sessionid" delay="2ms" id="own"/>'),
        ("ok", '<send event="x" delay="3ms" id="d2"/>'),
        ("ok", '<send event="x" delay="3ms"/>'),
        ("ok", '<send event="x" delay="3ms" idlocation="loc"/>'),
        ("ok", '<send event="x" delayexpr="\'4ms\'" id="d3"/><send event="x" delayexpr="\'4ms\'" id="d3"/>'),
        ("ok", '<send event="x" delay="2ms" id="d4"/><cancel sendid="d4"/><send event="x" delay="2ms" id="d4"/>'),
        ("expr", '<cancel sendidexpr=%s/>' % E),
        ("ok", '<send event="x" idlocation="loc" target="#_internal"/>'),
    ]
    doc("send-odd", sends)
    content = [
        ("expr", '<assign location=%s expr="1"/>' % E),
        ("expr", '<assign location="x" expr=%s/>' % E),
        ("expr", '<assign location="undeclared_var" expr="1"/>'),
        ("expr", "<log expr=%s/>" % E),
        ("expr", "<script>%s</script>" % ERRX),
        ("expr", "<if cond=%s><raise event=\"a\"/><else/><raise event=\"b\"/></if>" % E),
        ("expr", "<foreach array=%s item=\"it\"><raise event=\"a\"/></foreach>" % E),
        ("expr", '<foreach array="5" item="it"><raise event="a"/></foreach>'),
        ("ok", '<raise event="error.execution"/>'),
        ("cond", '<transition event="EVENT" cond=%s target="s"/>' % E),
        ("ok", '<log expr="1"/><script>mark(\'x\', x)</script>'),
        # the iterated collection used again inside the loop (W3C test 525 does this), changed inside the loop, used as its own item
        ("ok", '<foreach array="arrv" item="it" index="ix"><assign location="x" expr="arrv[ix]"/></foreach>'),
        ("ok", '<foreach array="arrv" item="it"><foreach array="arrv" item="it2"><assign location="x" expr="it + it2"/></foreach></foreach>'),
        ("free", '<foreach array="arrv" item="it"><assign location="arrv" expr="[9]"/></foreach>'),
        ("free", '<foreach array="arrv" item="arrv"><assign location="x" expr="1"/></foreach>'),
        ("free", '<foreach array="arrv" item="it" index="arrv"><assign location="x" expr="1"/></foreach>'),
        ("ok", '<assign location="x" expr="x"/><assign location="arrv" expr="arrv"/>'),
    ]
    doc("content-odd", content)
    doc("data-odd", [("ok", '<raise event="a"/>')], init_kind="data",
        data='<datamodel><data id="x" expr="0"/><data id="bad" expr=%s/><data id="loc" expr="0"/></datamodel>' % E)
    doc("donedata-odd", [("donedata", '<transition event="EVENT" target="c"/>')],
        extra_states='<state id="c"><transition event="probe"><script>mark(\'alive\')</script></transition>'
                     '<state id="c1"><transition event="never" target="cf"/></state>'
                     '<final id="cf"><donedata><param name="p" expr=%s/></donedata></final><initial><transition target="cf"/></initial></state>' % E)
    child = ('&lt;scxml xmlns="http://www.w3.org/2005/07/scxml" version="1.0" datamodel="%s"&gt;&lt;state id="k"/&gt;&lt;/scxml&gt;' % dm)
    invokes = [
        ("invoke-expr", '<invoke typeexpr=%s><content>%s</content></invoke>' % (E, child)),
        ("invoke-expr", '<invoke type="scxml" srcexpr=%s/>' % E),
        ("invoke-fail", '<invoke type="x-unknown-service"><content>%s</content></invoke>' % child),
        ("invoke-fail", '<invoke type="scxml" src="no_such_file_anywhere.scxml"/>'),
        ("invoke-fail", '<invoke type="scxml"><content>this is not xml at all &lt;&lt;</content></invoke>'),
        ("invoke-fail", '<invoke type="scxml"><content>&lt;scxml&gt;&lt;state id="a"&gt;&lt;/scxml&gt;</content></invoke>'),
        ("invoke-fail", '<invoke type="scxml"><content>&lt;scxml datamodel="nosuchmodel"&gt;&lt;state id="a"/&gt;&lt;/scxml&gt;</content></invoke>'),
        ("invoke-expr", '<invoke type="scxml"><content expr=%s/></invoke>' % E),
        ("invoke-expr", '<invoke type="scxml"><param name="p" expr=%s/><content>%s</content></invoke>' % (E, child)),
        ("invoke-expr", '<invoke type="scxml" namelist="nope_undefined"><content>%s</content></invoke>' % child),
        ("invoke-fail", '<invoke type="scxml"/>'),
        ("ok", '<invoke type="scxml" id="kid"><content>%s</content></invoke>' % child),
    ]
    for k, (kind, inv) in enumerate(invokes):
        doc("invoke-odd-%d" % k, [(kind, '<transition event="EVENT" target="v"/>')],
            extra_states='<state id="v">%s<transition event="probe"><script>mark(\'alive\')</script></transition>'
                         '<transition event="back" target="s"/></state>' % inv)
    return docs


def quote_attr(v):
    from xml.sax.saxutils import quoteattr
    return quoteattr(v)


def flat_steps(recs):
    """light grouping for C12/C13/C15: one step per received event (plus 'init'), with enqueues and marks"""
    steps = [{"ev": "__init__", "type": "", "enq": [], "marks": [], "evrec": None}]
    ended = False
    for r in recs:
        k = r[0]
        if k in ("XR", "IR"):
            steps.append({"ev": r[1]["name"], "type": k, "enq": [], "marks": [], "evrec": r[1]})
        elif k in ("IQ", "IS"):
            steps[-1]["enq"].append(r[1])
        elif k == "M":
            steps[-1]["marks"].append([tracelib.val_str(r[1])] + [tracelib.val_str(x) for x in r[2]])
        elif k == "END":
            ended = True
    return steps, ended


@check("C12")
def c12(tier, seed):
    t0 = time.time()
    wd = vlib.workdir("C12")
    V = vlib.Verdicts("C12")
    vlib.build_harness()
    rng = random.Random(seed)
    jobs = []
    meta = {}
    dms = ["rfsm-expression", "ecmascript"]
    for dm in dms:
        for (name, xml, kinds, init_kind) in odd_docs(dm):
            evs = list(kinds.keys())
            orders = [evs, list(reversed(evs))] + ([rng.sample(evs, len(evs)) for _ in range(3)] if tier != "quick" else [])
            for oi, order in enumerate(orders):
                seq = []
                for e in order:
                    seq += [e, "probe"]
                seq += ["back", "probe"] if "invoke" in name else []
                jid = len(jobs) + 1
                job = {"id": jid, "xml": xml, "events": seq, "mode": "step" if oi % 2 else "preload", "timeout_ms": 20000}
                if dm == "ecmascript":
                    job["options"] = {"ecma:strict": ""}
                jobs.append(job)
                meta[jid] = (name, xml, kinds, init_kind, seq)
    # documents that are odd as a whole, and reserved event names sent by the host
    whole = [
        ("datamodel-unknown", '<scxml xmlns="http://www.w3.org/2005/07/scxml" version="1.0" datamodel="nosuchmodel"><state id="s">'
                              '<transition event="probe" target="s"/></state></scxml>', {}, None, ["probe"]),
        ("reserved-events", '<scxml xmlns="http://www.w3.org/2005/07/scxml" version="1.0" datamodel="rfsm-expression"><state id="s">'
                            '<transition event="probe"><script>mark(\'alive\')</script></transition>'
                            '<transition event="*"><script>mark(\'any\', _event.name)</script></transition></state></scxml>',
         {e: "reserved" for e in ["done.invoke.x", "done.invoke.", "error.execution", "error.communication", "trace.methods.on",
                                   "trace.bogus.on", "trace.states.sideways", "trace.", "done.state.s", "error.platform.cancelled", "", ".", "*"]},
         None, None),
    ]
    for (name, xml, kinds, init_kind, seq) in whole:
        if seq is None:
            seq = []
            for e in kinds:
                seq += [e, "probe"]
        jid = len(jobs) + 1
        jobs.append({"id": jid, "xml": xml, "events": seq, "mode": "preload", "timeout_ms": 20000})
        meta[jid] = (name, xml, kinds, init_kind, seq)
    # (the whole batch normally takes a second; a process that hangs or dies is bisected down to the document that does it)
    results = vlib.run_harness("run", jobs, wd, threads=8, isolate=True, timeout=90)
    runs = []
    for jid, (name, xml, kinds, init_kind, seq) in meta.items():
        r = results.get(jid, {})
        if r.get("died") is not None:
            V.report("process-died:%s" % name, "the process running document %s died (rc %s): %s" % (name, r["died"], str(r.get("tail"))[-160:]),
                     {"scxml": xml, "events": seq, "rc": r["died"], "tail": r.get("tail")})
            continue
        if "parse_error" in r:
            # not accepted by the reader: outside the property (but a reader panic is shown as information)
            continue
        recs = [x[:-1] for x in r["sessions"][0]["recs"]] if r.get("sessions") else []
        steps, ended = flat_steps(recs)
        if not recs and not r.get("stall") and not r.get("panic"):
            ended = True       # the document was rejected at start (e.g. unsupported datamodel): the session never ran
            seq = []
        out = []
        for st in steps:
            kind = init_kind if st["ev"] == "__init__" and init_kind else "probe" if st["ev"] == "probe" and st["type"] == "XR" \
                else kinds.get(st["ev"], "ok") if st["type"] == "XR" else "ok"
            out.append({"ev": st["ev"], "kind": kind or "ok", "enq": st["enq"], "alive": any(m[0] == "alive" for m in st["marks"])})
        child_panics = [p for p in r.get("other_panics", [])]
        runs.append({"name": name, "steps": out, "panic": bool(r.get("panic")), "stall": bool(r.get("stall")), "ended": ended,
                     "sent": len(seq), "processed": sum(1 for st in steps if st["type"] == "XR" and st["ev"] != "error.platform.cancel"),
                     "jid": jid})
    # a target session that existed but has finished is unreachable as well (two sessions: scenario harness)
    sjobs, smeta = [], {}
    for dm in dms:
        hdr = '<scxml xmlns="http://www.w3.org/2005/07/scxml" version="1.0" datamodel="%s" name="%s">'
        bdoc = (hdr % (dm, "B")) + '<state id="s"><transition event="quit" target="f"/></state><final id="f"/></scxml>'
        snd = '<send event="hello" targetexpr="\'#_scxml_\' + peer"/>'
        adoc = (hdr % (dm, "A")) + '<datamodel><data id="peer" expr="0"/></datamodel><state id="s">' \
            '<transition event="init"><assign location="peer" expr="_event.data.peer"/></transition>' \
            '<transition event="probe"><script>mark(\'alive\')</script></transition>' \
            '<transition event="o1">' + snd + '</transition><transition event="o2">' + snd + '</transition></state></scxml>'
        for entry in ("execute",):
            jid = len(sjobs) + 1
            job = {"id": jid, "sessions": [{"name": "A", "xml": adoc}, {"name": "B", "xml": bdoc, "entry": entry},
                                           {"name": "C", "xml": bdoc.replace('name="B"', 'name="C"'), "entry": entry}], "timeout_ms": 20000,
                   "steps": [{"start": "A"}, {"start": "B"}, {"settle": 30}, {"send": "A", "event": {"name": "init", "params": {"peer": "$sid:B"}}},
                             {"send": "A", "event": "o1"}, {"send": "A", "event": "probe"}, {"settle": 30}, {"send": "B", "event": "quit"},
                             {"await_end": "B"}, {"start": "C"}, {"settle": 20},
                             {"send": "A", "event": "o2"}, {"send": "A", "event": "probe"}, {"settle": 40}]}
            if dm == "ecmascript":
                job["options"] = {"ecma:strict": ""}
            sjobs.append(job)
            smeta[jid] = ("finished-session:" + dm, adoc + "\n" + bdoc)
    sres = run_scen_jobs(sjobs, wd, threads=2)
    for jid, (name, xml) in smeta.items():
        r = sres[jid]
        if r.get("errors"):
            raise ToolError("C12 scenario %s: %s" % (name, r["errors"]))
        aidx = [n for n in r["names"] if n[0] == "A"][0][1]
        recs = [x[:-1] for sl in r["sessions"] if sl["idx"] == aidx for x in sl["recs"]]
        steps, ended = flat_steps(recs)
        kinds = {"o1": "ok", "o2": "nosession", "init": "ok"}
        out = []
        for st in steps:
            kind = "probe" if st["ev"] == "probe" and st["type"] == "XR" else kinds.get(st["ev"], "ok") if st["type"] == "XR" else "ok"
            out.append({"ev": st["ev"], "kind": kind, "enq": st["enq"], "alive": any(m[0] == "alive" for m in st["marks"])})
        jid2 = 100000 + jid
        meta[jid2] = (name, xml, kinds, None, ["init", "o1", "probe", "o2", "probe"])
        results[jid2] = {"panic": r.get("panics") or None, "stall": r.get("stalls") or None}
        runs.append({"name": name, "steps": out, "panic": bool(r.get("panics")), "stall": bool(r.get("stalls")), "ended": ended,
                     "sent": 5, "processed": sum(1 for st in steps if st["type"] == "XR" and st["ev"] != "error.platform.cancel"),
                     "jid": jid2})
    with open(os.path.join(wd, "traces.ndjson"), "w") as f:
        for r in runs:
            f.write(json.dumps(r) + "\n")
    tv = vlib.run_tlc("TraceC12", "TraceC12.cfg", wd, env={"TRACES": "traces.ndjson"}, timeout=900)
    acc = len(vlib.tlc_tuples(tv["text"], "ACCEPT"))
    for t in vlib.tlc_tuples(tv["text"], "REJECT"):
        v = vlib.parse_tla_value(t)
        run = runs[v[1] - 1]
        name, xml, kinds, init_kind, seq = meta[run["jid"]]
        r = results[run["jid"]]
        detail = ""
        if v[2] in ("missing-error", "wedged"):
            bad = next((st for st in run["steps"] if st["kind"] not in ("ok",) and not _c12_ok(st)), None)
            detail = "%s/%s" % (bad["kind"], _c12_case(xml, bad["ev"])) if bad else ""
        elif v[2] == "panic":
            detail = str(r.get("panic"))[:120]
        V.report("%s:%s:%s" % (v[2], name, detail), "%s in %s: %s" % (v[2], name, detail),
                 {"scxml": xml, "events": seq, "class": v[2], "steps": run["steps"], "panic": r.get("panic"), "stall": r.get("stall")})
    tv["text"] = ""
    if acc == 0 and not V.violations:
        raise ToolError("C12: nothing accepted")
    rc = V.finish()
    cov = {"evaluations": len(runs), "distinct_nontrivial": sum(1 for r in runs for st in r["steps"] if st["kind"] not in ("ok", "probe")),
           "rule": "F-odd documents: every failing form of <send> (each expression slot, unsupported type, malformed target, unknown "
                   "session / parent / invokeid, illegal delay), of other executable content, of data and donedata, 12 failing forms of "
                   "<invoke>, an unknown datamodel name and reserved event names from the host, for rfsm-expression and ecmascript, "
                   "in several event orders with a probe event after each; runs are accepted by TraceC12.tla; non-trivial = steps "
                   "executing a failing operation",
           "samples": [{"name": r["name"], "steps": r["steps"][:4]} for r in runs[:2]],
           "states": tv["distinct"], "transitions": tv["states"], "accepted": acc, "exhaustive": False}
    vlib.write_evidence("C12", tier, seed, "fault_enumeration", cov, time.time() - t0, len(V.violations),
                        ["a stall is a session thread that has not finished 20 s after the final cancel event was queued"])
    return rc


def _c12_ok(st):
    need = {"expr": "error.execution", "badtype": "error.execution", "badtarget": "error.execution", "baddelay": "error.execution",
            "delay-internal": "error.execution", "cond": "error.execution", "data": "error.execution", "donedata": "error.execution",
            "invoke-expr": "error.execution", "nosession": "error.communication", "noinvokeid": "error.communication"}.get(st["kind"])
    if st["kind"] == "probe":
        return st["alive"]
    return need is None or need in st["enq"]


def _c12_case(xml, ev):
    import re as _re
    m = _re.search(r'<transition event="%s"[^>]*>(.*?)</transition>' % _re.escape(ev), xml)
    if m:
        return m.group(1)[:70]
    m = _re.search(r'<transition event="%s"[^>]*/>' % _re.escape(ev), xml)
    return m.group(0)[:70] if m else ev


# ---------------------------------------------------------------------------------------------
# C13: concurrent producers (Queue.tla / TraceC13.tla)
# ---------------------------------------------------------------------------------------------
def run_scen_jobs(jobs, wd, name="scen", threads=4, timeout=1800, isolate=False):
    """isolate: if the harness process dies (abort / resource exhaustion caused by the code under test), every job is run
    again in a process of its own; a job whose process dies again gets the result {"died": rc, "tail": ..}"""
    import subprocess
    for j in jobs:
        d = os.path.join(wd, "scen%s" % j["id"])
        os.makedirs(d, exist_ok=True)
        j["dir"] = d

    def limit():
        import resource
        resource.setrlimit(resource.RLIMIT_AS, (24 << 30, 24 << 30))

    def run(batch, nm, thr, tmo):
        jf = os.path.join(wd, nm + ".ndjson")
        of = os.path.join(wd, nm + ".out.ndjson")
        with open(jf, "w") as f:
            for j in batch:
                f.write(json.dumps(j) + "\n")
        p = subprocess.run(["timeout", str(tmo), vlib.VH, "scen", jf, of, str(thr)], stdout=subprocess.PIPE,
                           stderr=subprocess.STDOUT, text=True, errors="replace", preexec_fn=limit)
        got = {}
        if os.path.exists(of):
            for line in open(of):
                try:
                    r = json.loads(line)
                    got[r["id"]] = r
                except Exception:
                    pass
        return p.returncode, p.stdout[-500:], got

    t0 = time.time()
    rc_, tail, res = run(jobs, name, threads, timeout)
    if rc_ != 0:
        if not isolate or rc_ == 124:
            raise ToolError("vh scen failed rc=%d %s" % (rc_, tail))
        res = {}
        for j in jobs:
            rc1, tail1, got = run([j], "%s.iso%s" % (name, j["id"]), 1, 120)
            if rc1 == 0 and j["id"] in got:
                res[j["id"]] = got[j["id"]]
            else:
                res[j["id"]] = {"id": j["id"], "died": rc1, "tail": tail1, "sessions": [], "names": []}
    log("[harness] scen: %d scenarios in %.1fs" % (len(jobs), time.time() - t0))
    return res


# (the catch-all takes external events only; every macrostep queues an internal event that matches nothing - 'zz.note' - before
# the one that ends it: a macrostep that is declared finished after such an event would overlap with the next external event)
C13_CONSUMER = """<scxml xmlns="http://www.w3.org/2005/07/scxml" version="1.0" datamodel="rfsm-expression" name="consumer">
<datamodel><data id="cnt" expr="0"/></datamodel>
<state id="s">
 <transition event="follow"><script>mark('E', _event.data.n)</script></transition>
 <transition event="kick">%s<script>mark('B', _event.name)</script>
   <send target="#_internal" event="follow"><param name="n" expr="_event.name"/></send></transition>
 <transition event="*" cond="_event.type == 'external'"><script>mark('B', _event.name)</script><assign location="cnt" expr="cnt + 1"/>
   <raise event="zz.note"/><send target="#_internal" event="follow"><param name="n" expr="_event.name"/></send></transition>
</state></scxml>"""

# consumer that also invokes a child (same invoke id on every entry of state 'on'); the child sends m events to its parent
C13_CHILD = """<scxml xmlns="http://www.w3.org/2005/07/scxml" version="1.0" datamodel="rfsm-expression" name="kid">
<datamodel><data id="gen" expr="0"/></datamodel><state id="c"><onentry>%s</onentry></state></scxml>"""
C13_CONSUMER_INV = """<scxml xmlns="http://www.w3.org/2005/07/scxml" version="1.0" datamodel="rfsm-expression" name="consumer">
<datamodel><data id="cnt" expr="0"/><data id="g" expr="0"/></datamodel>
<state id="s">
 <transition event="follow"><script>mark('E', _event.data.n)</script></transition>
 <transition event="kick"><script>mark('B', _event.name)</script>
   <send target="#_internal" event="follow"><param name="n" expr="_event.name"/></send></transition>
 <transition event="*" cond="_event.type == 'external'"><script>mark('B', _event.name)</script><assign location="cnt" expr="cnt + 1"/>
   <raise event="zz.note"/><send target="#_internal" event="follow"><param name="n" expr="_event.name"/></send></transition>
 <state id="off"><transition event="w.on" target="on"><script>mark('B', _event.name)</script><assign location="g" expr="g + 1"/>
   <send target="#_internal" event="follow"><param name="n" expr="_event.name"/></send></transition></state>
 <state id="on"><invoke type="scxml" id="w"><param name="gen" expr="g"/><content>%s</content></invoke>
   <transition event="w.off" target="off"><script>mark('B', _event.name)</script>
   <send target="#_internal" event="follow"><param name="n" expr="_event.name"/></send></transition></state>
</state></scxml>"""

C13_PEER = """<scxml xmlns="http://www.w3.org/2005/07/scxml" version="1.0" datamodel="rfsm-expression" name="peer">
<datamodel><data id="peer" expr="0"/></datamodel>
<state id="w"><transition event="go">%s</transition></state></scxml>"""


@check("C13")
def c13(tier, seed):
    t0 = time.time()
    wd = vlib.workdir("C13")
    V = vlib.Verdicts("C13")
    vlib.build_harness()
    mc = vlib.run_tlc("Queue", "Queue.cfg", wd, timeout=900)
    mc["text"] = ""
    rng = random.Random(seed)
    jobs = []
    meta = {}
    nscen = 16 if tier == "quick" else 120
    for si in range(nscen):
        np_ = rng.choice([2, 3, 4, 8] if tier == "quick" else [2, 4, 8, 16])
        m = rng.choice([20, 60, 150] if tier == "quick" else [100, 400, 1000])
        timers = rng.randint(0, 12)
        peer_n = rng.choice([0, 10, 40])
        tsend = "".join('<send event="t.%d" delay="%dms"/>' % (k + 1, 3 * (k + 1)) for k in range(timers))
        consumer = C13_CONSUMER % tsend
        psend = "".join('<send event="b.%d" targetexpr="\'#_scxml_\' + peer"/>' % (k + 1) for k in range(peer_n))
        sessions = [{"name": "A", "xml": consumer}]
        steps = [{"start": "A"}]
        prods = {}
        groups = []
        # producers use the session's channel handle or the executor (FsmExecutor::send_to_session, which takes the lock of
        # the executor state: producers then contend with each other and with session starts)
        via_mode = si % 3
        for pi in range(np_):
            g = []
            names = []
            via_exec = via_mode == 1 or (via_mode == 2 and pi % 2 == 0)
            for k in range(m):
                nm = "p%d.%d" % (pi + 1, k + 1)
                names.append(nm)
                g.append({"send": "A", "event": nm, "via": "executor"} if via_exec else {"send": "A", "event": nm})
                if rng.random() < 0.05:
                    g.append({"sleep_us": rng.randint(1, 300)})
            groups.append(g)
            prods["p%d" % (pi + 1)] = names
        kick = [{"send": "A", "event": "kick"}]
        if timers:
            prods["timer"] = ["t.%d" % (k + 1) for k in range(timers)]
        prods["kick"] = ["kick"]
        if peer_n:
            sessions.append({"name": "B", "xml": C13_PEER % psend, "data": {}})
            prods["peer"] = ["b.%d" % (k + 1) for k in range(peer_n)]
        job = {"id": si + 1, "sessions": sessions, "steps": steps, "timeout_ms": 60000, "peer": peer_n}
        jobs.append(job)
        meta[si + 1] = (prods, groups, kick, peer_n)
    # an invoked child as producer: the invoking state is left (child cancelled) and entered again, the second child has the
    # same invoke id; every event of the second child must be consumed (those of the cancelled first one may be dropped)
    from xml.sax.saxutils import escape as _esc
    for ci in range(2 if tier == "quick" else 12):
        mk = rng.choice([5, 20, 60])
        child = C13_CHILD % "".join('<send target="#_parent" eventexpr="\'k\' + gen + \'.%d\'"/>' % (q + 1) for q in range(mk))
        jid = len(jobs) + 1
        host = ["h.%d" % (q + 1) for q in range(10)]
        ctl = ["w.on", "w.off", "w.on"]
        steps = [{"start": "A"}, {"settle": 20}, {"send": "A", "event": "w.on"}, {"sleep_us": rng.choice([0, 200, 2000])},
                 {"send": "A", "event": "w.off"}, {"send": "A", "event": "w.on"}] + \
                [{"send": "A", "event": h} for h in host] + \
                [{"await_xr": "A", "name": "k2.%d" % mk, "max_ms": 15000}, {"send": "A", "event": "kick"}, {"settle": 60}]
        jobs.append({"id": jid, "sessions": [{"name": "A", "xml": C13_CONSUMER_INV % _esc(child)}], "steps": steps, "timeout_ms": 60000, "peer": 0,
                     "prebuilt": True})
        meta[jid] = ({"host": ctl + host + ["kick"], "child2": ["k2.%d" % (q + 1) for q in range(mk)]}, [], [], 0)
    # the session id of A is only known at run time: B learns it from an event parameter
    for j in jobs:
        if j.pop("prebuilt", False):
            continue
        prods, groups, kick, peer_n = meta[j["id"]]
        st = j["steps"]
        if peer_n:
            st.append({"start": "B"})
        st.append({"settle": 20})
        st.append({"threads": groups + [kick] + ([[{"send": "B", "event": {"name": "go"}}]] if peer_n else [])})
        # the end of the scenario does not depend on how fast the threads are scheduled: the last timer event and the last
        # event of the peer are awaited (bounded), then everything queued is processed (barrier)
        if "timer" in prods:
            st.append({"await_xr": "A", "name": prods["timer"][-1], "max_ms": 15000})
        if peer_n:
            st.append({"await_xr": "A", "name": prods["peer"][-1], "max_ms": 15000})
        st.append({"barrier": True})
        st.append({"settle": 60})
    # B needs A's session id: sessions are started in order A, B -> ids are consecutive; B is told through its <data>
    results = {}
    # run scenarios one by one for those with a peer (session ids), in parallel otherwise
    res = run_scen_jobs_with_peer(jobs, wd)
    runs = []
    for j in jobs:
        r = res.get(j["id"], {})
        prods, groups, kick, peer_n = meta[j["id"]]
        if r.get("errors"):
            raise ToolError("C13 scenario error: %s" % r["errors"])
        a_idx = [n for n in r["names"] if n[0] == "A"][0][1]
        recs = [x[:-1] for x in r["sessions"][a_idx]["recs"]]
        seq = []
        for x in recs:
            # (events of the first, cancelled child 'k1.*' may or may not arrive: not part of any producer's obligation)
            if x[0] == "XR" and x[1]["name"] != "error.platform.cancel" and not x[1]["name"].startswith(("k1.", "__sync.")):
                seq.append(["X", x[1]["name"]])
            elif x[0] == "M" and x[1] in ("B", "E") and not (x[2] and tracelib.val_str(x[2][0]).startswith(("k1.", "__sync."))):
                seq.append([x[1], tracelib.val_str(x[2][0]) if x[2] else ""])
        runs.append({"prods": prods, "seq": seq, "jid": j["id"], "panic": bool(r.get("panics")), "stall": bool(r.get("stalls"))})
    with open(os.path.join(wd, "traces.ndjson"), "w") as f:
        for r in runs:
            f.write(json.dumps({"prods": [v for k, v in sorted(r["prods"].items())], "seq": r["seq"]}) + "\n")
    tv = vlib.run_tlc("TraceC13", "TraceC13.cfg", wd, env={"TRACES": "traces.ndjson"}, timeout=1500)
    acc = len(vlib.tlc_tuples(tv["text"], "ACCEPT"))
    for t in vlib.tlc_tuples(tv["text"], "REJECT"):
        v = vlib.parse_tla_value(t)
        run = runs[v[1] - 1]
        V.report("%s" % v[2], "scenario %d: %s (producers %s, %d events consumed)" % (
            run["jid"], v[2], {k: len(x) for k, x in run["prods"].items()}, sum(1 for e in run["seq"] if e[0] == "X")),
                 {"class": v[2], "producers": {k: len(x) for k, x in run["prods"].items()}, "consumed_head": run["seq"][:60],
                  "missing": sorted({n for x in run["prods"].values() for n in x} - {e[1] for e in run["seq"] if e[0] == "X"})[:40],
                  "consumed_tail": run["seq"][-30:]})
    tv["text"] = ""
    for run in runs:
        if run["panic"] or run["stall"]:
            V.report("session-%s" % ("panic" if run["panic"] else "stall"), "scenario %d" % run["jid"], {})
    if acc == 0 and not V.violations:
        raise ToolError("C13: nothing accepted")
    rc = V.finish()
    total = sum(sum(len(x) for x in r["prods"].values()) for r in runs)
    cov = {"states": mc["distinct"] + tv["distinct"], "transitions": mc["states"] + tv["states"],
           "traces_validated_against_impl": acc,
           "samples": [{"producers": {k: len(x) for k, x in runs[0]["prods"].items()}, "consumed_head": runs[0]["seq"][:12]}],
           "evaluations": len(runs), "distinct_nontrivial": sum(1 for r in runs if len(r["prods"]) >= 3),
           "events_total": total,
           "rule": "Queue.tla model-checked (3 producers x 2 events, macrosteps of 2 microsteps: PerSenderOrder, NoLossNoDup, NoOverlap, "
                   "AllConsumed); %d recorded runs with 2-16 host producer threads, a timer producer (delayed sends) and a second session "
                   "sending by session id, validated by TraceC13.tla; non-trivial = runs with >= 3 producers" % len(runs)}
    vlib.write_evidence("C13", tier, seed, "model_checking", cov, time.time() - t0, len(V.violations),
                        ["the real scheduler is steered by jitter only; exhaustive interleavings are explored in the model",
                         "producer order is the program order of each producer thread / the due-time order of the timer sends"])
    return rc


def run_scen_jobs_with_peer(jobs, wd):
    """the peer session needs the consumer's session id: it is passed as <data id="peer"> using the id the harness
    process will assign (ids are consecutive per process, so scenarios with a peer run one per process)"""
    plain = [j for j in jobs if not j.get("peer")]
    res = run_scen_jobs(plain, wd, name="scen-plain") if plain else {}
    for j in jobs:
        if j.get("peer"):
            # first session started in a fresh process gets id 1
            for sdef in j["sessions"]:
                if sdef["name"] == "B":
                    sdef["data"] = {"peer": 1}
            res.update(run_scen_jobs([j], wd, name="scen-%s" % j["id"], threads=1))
    return res


# ---------------------------------------------------------------------------------------------
# C15: routing (TraceC15.tla)
# ---------------------------------------------------------------------------------------------
RECV_MARK = "<script>mark('recv', _name, _event.name, _event.type, _event.sendid, _event.origin, _event.origintype, _event.invokeid, _event.data)</script>"
PAYLOADS = {
    "none": ("", "null"),
    "params": ('<param name="p1" expr="v"/><param name="p2" expr="\'two\'"/>', "{p1:7,p2:two}"),
    "namelist": ("NAMELIST", "{v:7}"),
    "namelist+param": ('NAMELIST<param name="p1" expr="\'one\'"/>', "{p1:one,v:7}"),
    "contentexpr": ('<content expr="v + 1"/>', "8"),
    "contenttext": ("<content>hello world</content>", "hello world"),
}


def c15_node(name, dm, cases, peers, child_xml=None, forward_init=False):
    """cases: list of (K, form, arg, payload); peers: names whose session id this node may need"""
    data = '<data id="v" expr="7"/><data id="gid" expr="0"/>' + "".join('<data id="peer%s" expr="0"/>' % p for p in peers)
    init = "".join('<assign location="peer%s" expr="_event.data.peer%s"/>' % (p, p) for p in peers)
    if forward_init:
        init += '<send target="#_kid" event="init">' + "".join('<param name="peer%s" expr="_event.data.peer%s"/>' % (p, p) for p in peers) + "</send>"
    ts = ['<transition event="init">%s</transition>' % init]
    for (k, form, arg, payload) in cases:
        body, _ = PAYLOADS[payload]
        attrs = ' event="req.%s.%d" id="sid%s%d"' % (name, k, name, k)
        if body.startswith("NAMELIST"):
            attrs += ' namelist="v"'
            body = body[len("NAMELIST"):]
        if form == "internal":
            attrs += ' target="#_internal"'
        elif form == "sid":
            attrs += " targetexpr=\"'#_scxml_' + peer%s\"" % arg
        elif form == "parent":
            attrs += ' target="#_parent"' if k % 2 else " targetexpr=\"'#_parent'\""
        elif form == "invokeid":
            attrs += ' target="#_%s"' % arg if k % 2 else " targetexpr=\"'#_%s'\"" % arg
        if form != "internal" and k % 3 == 1:
            attrs += ' delay="6ms"'          # the route of a delayed send is the same
        ts.append('<transition event="fire.%d"><send%s>%s</send></transition>' % (k, attrs, body))
    if forward_init:
        ts.append('<transition event="kidfire"><send target="#_kid" eventexpr="\'fire.\' + _event.data.k"/></transition>')
    ts.append('<transition event="genid"><send event="gen.x" target="#_internal" idlocation="gid"/><script>mark(\'gid\', gid)</script></transition>')
    reply = ('<send eventexpr="\'reply.\' + _event.name" targetexpr="_event.origin" typeexpr="_event.origintype"/>')
    ts.append('<transition event="req.*" cond="_event.type == \'external\'">%s%s</transition>' % (RECV_MARK, reply))
    ts.append('<transition event="*">%s</transition>' % RECV_MARK)
    inv = ""
    if child_xml:
        from xml.sax.saxutils import escape
        inv = '<invoke type="scxml" id="kid"><content>%s</content></invoke>' % child_xml
    return ('<scxml xmlns="http://www.w3.org/2005/07/scxml" version="1.0" datamodel="%s" name="%s"><datamodel>%s</datamodel>'
            '<state id="s">%s%s</state></scxml>' % (dm, name, data, inv, "".join(ts)))


@check("C15")
def c15(tier, seed):
    t0 = time.time()
    wd = vlib.workdir("C15")
    V = vlib.Verdicts("C15")
    vlib.build_harness()
    rng = random.Random(seed)
    pls = list(PAYLOADS)
    jobs = []
    meta = {}
    topologies = []
    for entry in ("start", "execute"):
        # two siblings
        topologies.append(("siblings-" + entry, entry, False))
        # parent (entry) invoking a child, plus a sibling
        topologies.append(("family-" + entry, entry, True))
    dms = ["rfsm-expression"] if tier == "quick" else ["rfsm-expression", "ecmascript"]
    for dm in dms:
        for (tname, entry, family_) in topologies:
            for rep in range(1 if tier == "quick" else 3):
                k = [0]

                def cases(node, forms):
                    out = []
                    for (form, arg) in forms:
                        for pl in (pls if tier != "quick" else rng.sample(pls, 3)):
                            k[0] += 1
                            out.append((k[0], form, arg, pl))
                    return out
                if not family_:
                    ca = cases("A", [("internal", ""), ("self", ""), ("sid", "B")])
                    cb = cases("B", [("internal", ""), ("self", ""), ("sid", "A")])
                    sessions = [{"name": "A", "xml": c15_node("A", dm, ca, ["B"]), "entry": entry},
                                {"name": "B", "xml": c15_node("B", dm, cb, ["A"]), "entry": entry}]
                    topo = [{"name": "A", "parent": "", "invokeid": ""}, {"name": "B", "parent": "", "invokeid": ""}]
                    allcases = [("A", c) for c in ca] + [("B", c) for c in cb]
                    init_to = ["A", "B"]
                else:
                    cc = cases("C", [("internal", ""), ("self", ""), ("parent", ""), ("sid", "B"), ("sid", "P")])
                    cp = cases("P", [("internal", ""), ("self", ""), ("invokeid", "kid"), ("sid", "B")])
                    cb = cases("B", [("self", ""), ("sid", "P")])
                    child = c15_node("C", dm, cc, ["B", "P"])
                    sessions = [{"name": "P", "xml": c15_node("P", dm, cp, ["B", "P"], child_xml=child, forward_init=True), "entry": entry},
                                {"name": "B", "xml": c15_node("B", dm, cb, ["P", "B"]), "entry": "start"}]
                    topo = [{"name": "P", "parent": "", "invokeid": ""}, {"name": "B", "parent": "", "invokeid": ""},
                            {"name": "C", "parent": "P", "invokeid": "kid"}]
                    allcases = [("P", c) for c in cp] + [("B", c) for c in cb] + [("C", c) for c in cc]
                    init_to = ["P", "B"]
                steps = [{"start": s["name"]} for s in sessions] + [{"settle": 40}]
                initev = {"name": "init", "params": {"peerA": "$sid:A", "peerB": "$sid:B", "peerP": "$sid:P"}}
                initev["params"] = {k2: v2 for k2, v2 in initev["params"].items() if any(s["name"] == k2[4:] for s in sessions)}
                for n in init_to:
                    steps.append({"send": n, "event": initev})
                steps.append({"settle": 40})
                order = list(allcases)
                rng.shuffle(order)
                for (node, (kk, form, arg, pl)) in order:
                    if node == "C":
                        # the child is driven through its parent: P forwards fire events addressed to the kid
                        steps.append({"send": "P", "event": {"name": "kidfire", "params": {"k": kk}}})
                    else:
                        steps.append({"send": node, "event": "fire.%d" % kk})
                    steps.append({"settle": 15})
                for n in init_to:
                    steps += [{"send": n, "event": "genid"}, {"send": n, "event": "genid"}]
                # everything sent so far (and the replies it causes) has been processed before the sessions are cancelled,
                # however slowly the threads are scheduled
                steps += [{"barrier": True}, {"settle": 30}, {"barrier": True}]
                jid = len(jobs) + 1
                job = {"id": jid, "sessions": sessions, "steps": steps, "timeout_ms": 60000}
                if dm == "ecmascript":
                    job["options"] = {"ecma:strict": ""}
                jobs.append(job)
                meta[jid] = (tname, dm, topo, allcases)
    # concurrent start of many sessions: ids must be unique
    many = [{"name": "S%d" % i, "xml": c15_node("S%d" % i, "rfsm-expression", [], [])} for i in range(16)]
    jid = len(jobs) + 1
    jobs.append({"id": jid, "sessions": many, "timeout_ms": 60000,
                 "steps": [{"threads": [[{"start": "S%d" % i}, {"send": "S%d" % i, "event": "genid"}, {"send": "S%d" % i, "event": "genid"}] for i in range(16)]},
                           {"settle": 60}]})
    meta[jid] = ("concurrent-start", "rfsm-expression", [{"name": "S%d" % i, "parent": "", "invokeid": ""} for i in range(16)], [])
    # ids over time: sessions that have ended (and were disposed) do not hand their ids to later ones
    qdoc = lambda n: ('<scxml xmlns="http://www.w3.org/2005/07/scxml" version="1.0" datamodel="rfsm-expression" name="%s"><state id="s">'
                      '<transition event="quit" target="f"/></state><final id="f"/></scxml>' % n)
    later = [{"name": "Q%d" % i, "xml": qdoc("Q%d" % i), "entry": "execute"} for i in range(4)] + \
            [{"name": "R%d" % i, "xml": qdoc("R%d" % i), "entry": "execute" if i % 2 else "start"} for i in range(4)]
    jid = len(jobs) + 1
    jobs.append({"id": jid, "sessions": later, "timeout_ms": 60000,
                 "steps": [{"start": "Q%d" % i} for i in range(4)] + [{"settle": 30}] +
                          [{"send": "Q%d" % i, "event": "quit"} for i in (3, 1, 0, 2)] + [{"await_end": "Q%d" % i} for i in range(4)] +
                          [{"start": "R%d" % i} for i in range(4)] + [{"settle": 30}]})
    meta[jid] = ("ids-over-time", "rfsm-expression", [{"name": x["name"], "parent": "", "invokeid": ""} for x in later], [])
    res = {}
    for j in jobs:       # one process per scenario: generated ids are process-global counters
        res.update(run_scen_jobs([j], wd, name="scen-%d" % j["id"], threads=1))
    scens = []
    for j in jobs:
        r = res[j["id"]]
        tname, dm, topo, allcases = meta[j["id"]]
        if r.get("errors"):
            raise ToolError("C15 scenario %s: %s" % (tname, r["errors"]))
        sids = {n[0]: n[2] for n in r["names"]}
        recvs = []
        genids = []
        for sl in r["sessions"]:
            for x in sl["recs"]:
                if x[0] == "M" and x[1] == "recv":
                    a = [tracelib.val_str(y) for y in x[2]]
                    a = ["null" if y == "NONE" else y for y in a]
                    if a[1].startswith("__sync."):
                        continue           # the harness' own barrier events
                    recvs.append({"session": a[0], "name": a[1], "qtype": "internal" if a[2] == "internal" else "external",
                                  "sendid": a[3], "origin": a[4], "origintype": a[5], "invokeid": a[6], "data": a[7]})
                    if a[0] not in sids and sl.get("sid") is not None:
                        sids[a[0]] = sl["sid"]
                elif x[0] == "M" and x[1] == "gid":
                    genids.append(tracelib.val_str(x[2][0]))
        sends = []
        for (node, (kk, form, arg, pl)) in allcases:
            sends.append({"sender": node, "form": form, "arg": arg, "name": "req.%s.%d" % (node, kk), "sendid": "sid%s%d" % (node, kk),
                          "data": PAYLOADS[pl][1], "reply": form != "internal"})
        sessions = [{"name": t["name"], "sid": sids.get(t["name"], -len(sessions_) - 1), "parent": t["parent"], "invokeid": t["invokeid"]}
                    for sessions_ in [[]] for t in topo]
        for i2, s_ in enumerate(sessions):
            if s_["sid"] < 0:
                s_["sid"] = -(i2 + 1)
        scens.append({"sessions": sessions, "sends": sends, "recvs": recvs, "genids": genids, "jid": j["id"],
                      "panic": bool(r.get("panics") or r.get("other_panics")), "stall": bool(r.get("stalls"))})
    with open(os.path.join(wd, "traces.ndjson"), "w") as f:
        for sc in scens:
            f.write(json.dumps({k2: sc[k2] for k2 in ("sessions", "sends", "recvs", "genids")}) + "\n")
    tv = vlib.run_tlc("TraceC15", "TraceC15.cfg", wd, env={"TRACES": "traces.ndjson"}, timeout=1500)
    acc = len(vlib.tlc_tuples(tv["text"], "ACCEPT"))
    for t in vlib.tlc_tuples(tv["text"], "REJECT"):
        v = vlib.parse_tla_value(t)
        sc = scens[v[1] - 1]
        tname, dm, topo, allcases = meta[sc["jid"]]
        snd = sc["sends"][v[2] - 1] if v[2] else None
        key = "%s:%s:%s" % (v[3], tname, ("%s->%s" % (snd["sender"], snd["form"] + (":" + snd["arg"] if snd["arg"] else ""))) if snd else "")
        V.report(key, "%s in %s (%s): %s" % (v[3], tname, dm, snd), {"class": v[3], "topology": topo, "send": snd,
                 "received_with_that_name": [x for x in sc["recvs"] if snd and x["name"] in (snd["name"], "reply." + snd["name"])],
                 "genids": sc["genids"]})
    tv["text"] = ""
    for sc in scens:
        if sc["panic"] or sc["stall"]:
            V.report("session-%s:%s" % ("panic" if sc["panic"] else "stall", meta[sc["jid"]][0]), "scenario %s" % meta[sc["jid"]][0],
                     {"result": {k2: res[sc["jid"]].get(k2) for k2 in ("panics", "other_panics", "stalls")}})
    if acc == 0 and not V.violations:
        raise ToolError("C15: nothing accepted")
    rc = V.finish()
    cov = {"states": tv["distinct"], "transitions": tv["states"], "traces_validated_against_impl": acc,
           "samples": [{"topology": meta[scens[0]["jid"]][0], "sends": scens[0]["sends"][:3], "recvs": scens[0]["recvs"][:3]}],
           "evaluations": sum(len(sc["sends"]) for sc in scens), "distinct_nontrivial": sum(1 for sc in scens for sd in sc["sends"] if sd["form"] not in ("internal", "self")),
           "rule": "topologies siblings / parent+child+sibling, each started through start_fsm and through FsmExecutor::execute; every "
                   "session sends through every applicable target form with every payload kind; receivers mark all _event fields and "
                   "reply to _event.origin; 16 sessions started concurrently for id uniqueness; validated by TraceC15.tla; "
                   "non-trivial = sends that cross sessions"}
    vlib.write_evidence("C15", tier, seed, "model_checking", cov, time.time() - t0, len(V.violations),
                        ["the sends that were executed are known from the generated documents; receptions are what content saw in _event"])
    return rc


# ---------------------------------------------------------------------------------------------
# C14: invoke life cycle (Invoke.tla / TraceC14.tla)
# ---------------------------------------------------------------------------------------------
def c14_docs(dm):
    from xml.sax.saxutils import escape
    hdr = '<scxml xmlns="http://www.w3.org/2005/07/scxml" version="1.0" datamodel="%s" name="%s">'
    c1 = (hdr % (dm, "C1")) + '<datamodel><data id="a" expr="0"/><data id="nl" expr="0"/></datamodel><state id="c">' \
        '<onentry><script>mark(\'cstart\', _name, a, nl)</script><send target="#_parent" event="hello"/></onentry>' \
        '<onentry><script>mark(\'hasb\', b)</script></onentry>' \
        '<transition event="ping"><send target="#_parent" event="pong"/></transition>' \
        '<transition event="fin" target="f"><send target="#_parent" event="bye"/></transition>' \
        '</state><final id="f"/></scxml>'
    plain = lambda nm: (hdr % (dm, nm)) + '<datamodel><data id="a" expr="5"/></datamodel><state id="c"><onentry><script>mark(\'cstart\', _name, a)</script>' \
                                            + ('<send target="#_parent" event="hi2"/>' if nm == "C2" else "") + \
                                            '</onentry><transition event="stop" target="f"/></state><final id="f"/></scxml>'
    recv = "<script>mark('recv', _event.name, _event.invokeid)</script>"
    pdoc = (hdr % (dm, "P")) + '<datamodel><data id="x" expr="0"/><data id="nl" expr="7"/></datamodel>' \
        '<state id="s0"><transition event="go" target="sA"/><transition event="tr" target="sT"/><transition event="err" target="sE"/><transition event="*">' + recv + '</transition></state>' \
        '<state id="sT"><invoke type="scxml" id="kidT"><content>' + plain("CT") + '</content></invoke>' \
        '<transition target="sB"/></state>' \
        '<state id="sA">' \
        '<invoke type="scxml" id="kid" namelist="nl"><param name="a" expr="1"/><param name="b" expr="2"/><content>' + c1 + '</content>' \
        '<finalize><script>mark(\'fin\', _event.name)</script></finalize></invoke>' \
        '<invoke type="scxml" id="kidf" autoforward="true"><content>' + plain("C2") + '</content></invoke>' \
        '<transition event="leave" target="s0"/>' \
        '<transition event="ping"><send target="#_kid" event="ping"/></transition>' \
        '<transition event="finish"><send target="#_kid" event="fin"/></transition>' \
        '<transition event="*">' + recv + '</transition></state>' \
        '<state id="sB"><invoke type="scxml"><content>' + plain("C3") + '</content></invoke>' \
        '<transition event="back" target="s0"/><transition event="*">' + recv + '</transition></state>' \
        '<state id="sE"><invoke type="scxml" id="kidE"><param name="a" expr="nosuchvar_c14"/><content>' + plain("CE") + '</content></invoke>' \
        '<invoke type="scxml" id="kidE2"><content>' + plain("CE2") + '</content></invoke>' \
        '<transition event="error.execution"><script>mark(\'err\', _event.name)</script></transition>' \
        '<transition event="back" target="s0"/><transition event="*">' + recv + '</transition></state></scxml>'
    inv = [{"state": "sE", "child": "CE", "id": "kidE", "fwd": False, "fin": False, "opt": True},
           {"state": "sE", "child": "CE2", "id": "kidE2", "fwd": False, "fin": False},
           {"state": "sT", "child": "CT", "id": "kidT", "fwd": False, "fin": False},
           {"state": "sA", "child": "C1", "id": "kid", "fwd": False, "fin": True, "direct": ["ping", "fin"]},
           {"state": "sA", "child": "C2", "id": "kidf", "fwd": True, "fin": False},
           {"state": "sB", "child": "C3", "id": "gen:sB", "fwd": False, "fin": False}]      # no id attribute: generated "sB.<n>"
    for x in inv:
        x.setdefault("direct", [])
        x.setdefault("opt", False)
    return pdoc, inv


# ---------------------------------------------------------------------------------------------
# Platform.tla: invoke x timers x cancellation cascade (parent P, child C, grandchild G); TracePlatform.tla
# ---------------------------------------------------------------------------------------------
PF_HALF_MS = 20


def pf_docs(dm="rfsm-expression"):
    hdr = '<scxml xmlns="http://www.w3.org/2005/07/scxml" version="1.0" datamodel="%s" name="%s">'

    def sender(lvl, pre, up, extra=""):
        """transitions of a child at level lvl (commands pre.send / pre.arm.<d> / pre.fin), events go up as <up>.now / <up>.timer"""
        out = ""
        forms = [("send", "now", "")] + [("arm.%d" % d, "timer", ' delay="%dms"' % (d * PF_HALF_MS)) for d in (1, 3)]
        for (cmd, kind, attr) in forms:
            out += ('<transition event="%s.%s"><assign location="n" expr="n + 1"/><script>mark(\'S0\', \'%s\', gen, n, \'%s\')</script>'
                    '<send target="#_parent" event="%s.%s"%s><param name="gen" expr="gen"/><param name="lvl" expr="\'%s\'"/>'
                    '<param name="i" expr="n"/><param name="kind" expr="\'%s\'"/></send>'
                    '<script>mark(\'S1\', \'%s\', gen, n, \'%s\')</script></transition>') % (pre, cmd, lvl, kind, up, kind, attr, lvl, kind, lvl, kind)
        out += '<transition event="%s.fin" target="f"><script>mark(\'FIN\', \'%s\', gen)</script></transition>' % (pre, lvl)
        return out
    gdoc = (hdr % (dm, "G")) + '<datamodel><data id="gen" expr="0"/><data id="n" expr="0"/></datamodel><state id="c">' \
        '<onentry><script>mark(\'cstart\', \'G\', gen)</script></onentry>' + sender("G", "g", "gup") + \
        '<transition event="*"><script>mark(\'other\', _event.name)</script></transition></state><final id="f"/></scxml>'
    cdoc = (hdr % (dm, "C")) + '<datamodel><data id="gen" expr="0"/><data id="n" expr="0"/></datamodel><state id="c">' \
        '<onentry><script>mark(\'cstart\', \'C\', gen)</script></onentry>' \
        '<invoke type="scxml" id="gkid"><param name="gen" expr="gen"/><content>' + gdoc + '</content></invoke>' + sender("C", "k", "up") + \
        '<transition event="g.*"><send target="#_gkid" eventexpr="_event.name"/></transition>' \
        '<transition event="gup.*"><script>mark(\'R\', _event.data.gen, _event.data.i, _event.data.kind)</script>' \
        '<send target="#_parent" event="up.relay"><param name="gen" expr="_event.data.gen"/><param name="lvl" expr="\'G\'"/>' \
        '<param name="i" expr="_event.data.i"/><param name="kind" expr="_event.data.kind"/></send></transition>' \
        '<transition event="done.invoke.gkid"><script>mark(\'gdone\', gen)</script></transition>' \
        '<transition event="error.*"><script>mark(\'err\', _event.name)</script></transition>' \
        '<transition event="*"><script>mark(\'other\', _event.name)</script></transition></state><final id="f"/></scxml>'
    up = '<transition event="up.*"><script>mark(\'ev\', _event.data.gen, _event.data.lvl, _event.data.i, _event.data.kind, _event.invokeid)</script></transition>' \
         '<transition event="done.invoke.kid"><script>mark(\'done\', _event.name)</script></transition>' \
         '<transition event="probe"><script>mark(\'probe\', g)</script></transition>' \
         '<transition event="error.*"><script>mark(\'err\', _event.name)</script></transition>'
    pdoc = (hdr % (dm, "P")) + '<datamodel><data id="g" expr="0"/></datamodel>' \
        '<state id="s0"><transition event="enter" target="sA"><assign location="g" expr="g + 1"/></transition>' + up + \
        '<transition event="*"><script>mark(\'other\', _event.name)</script></transition></state>' \
        '<state id="sA"><invoke type="scxml" id="kid"><param name="gen" expr="g"/><content>' + cdoc + '</content></invoke>' \
        '<transition event="leave" target="s0"/>' \
        '<transition event="k.* g.*"><send target="#_kid" eventexpr="_event.name"/></transition>' + up + \
        '<transition event="*"><script>mark(\'other\', _event.name)</script></transition></state></scxml>'
    return pdoc


PF_HAND = {
    # commands (op, d, t in half ticks); ops as in Platform.tla
    "timer-then-leave": [("enter", 0, 0), ("k.arm", 3, 2), ("leave", 0, 4)],
    "timer-then-fin": [("enter", 0, 0), ("k.arm", 3, 2), ("k.arm", 1, 2), ("k.fin", 0, 4), ("leave", 0, 8)],
    "grand-timer-then-leave": [("enter", 0, 0), ("g.arm", 3, 2), ("g.send", 0, 2), ("leave", 0, 4), ("enter", 0, 6), ("g.send", 0, 8)],
    "grand-fin": [("enter", 0, 0), ("g.send", 0, 2), ("g.arm", 1, 2), ("g.fin", 0, 4), ("g.send", 0, 6), ("k.send", 0, 6), ("leave", 0, 8)],
    "child-fin-with-grandchild-traffic": [("enter", 0, 0), ("g.arm", 1, 2), ("g.arm", 3, 2), ("k.fin", 0, 2), ("g.send", 0, 4), ("leave", 0, 8)],
    "reenter-with-old-timers": [("enter", 0, 0), ("k.arm", 3, 2), ("g.arm", 3, 2), ("leave", 0, 2), ("enter", 0, 4), ("k.send", 0, 4), ("g.send", 0, 6), ("leave", 0, 10)],
    "relay-under-cancel": [("enter", 0, 0), ("g.send", 0, 2), ("g.send", 0, 2), ("g.send", 0, 2), ("leave", 0, 2), ("enter", 0, 2), ("g.send", 0, 2)],
    "stay": [("enter", 0, 0), ("k.send", 0, 2), ("g.send", 0, 2), ("k.arm", 1, 2), ("g.arm", 3, 4), ("k.send", 0, 6)],
}


# the same under a schedule perturbation: a session thread that holds no lock sleeps 80 ms before it locks the executor state
# (i.e. between the end of its interpreter loop and the removal of the session, after which its Fsm and timer are dropped)
PF_SLOW = {
    "fin-slow-drop": [("enter", 0, 0), ("k.arm", 3, 2), ("k.fin", 0, 3)],
    "cancel-slow-drop": [("enter", 0, 0), ("k.arm", 3, 2), ("k.send", 0, 2), ("leave", 0, 3), ("enter", 0, 4), ("k.send", 0, 12)],
    "grand-fin-slow-drop": [("enter", 0, 0), ("g.arm", 3, 2), ("g.fin", 0, 3), ("k.send", 0, 10)],
}


def pf_job(jid, cmds, rng, jitter=False):
    steps = [{"start": "P"}, {"settle": 30}]
    tprev = cmds[0]["t"] if cmds else 0
    for c in cmds:
        if c["t"] > tprev:
            steps.append({"sleep": (c["t"] - tprev) * PF_HALF_MS})
            tprev = c["t"]
        elif jitter:
            steps.append({"sleep_us": rng.randint(0, 2500)})
        ev = c["op"] if c["op"] in ("enter", "leave") else ("%s.%d" % (c["op"], c["d"]) if c["op"].endswith(".arm") else c["op"])
        steps.append({"send": "P", "event": ev})
        if ev == "enter" and not jitter:
            steps.append({"settle": 50})        # the child and the grandchild are up before the next command (not with jitter)
    steps += [{"sleep": 4 * PF_HALF_MS + 150}, {"settle": 60}, {"send": "P", "event": "probe"}, {"settle": 40}]
    return {"id": jid, "sessions": [{"name": "P", "xml": pf_docs()}], "steps": steps, "timeout_ms": 60000}


def pf_extract(r):
    """recorded scenario -> facts for TracePlatform.tla"""
    pidx = [n for n in r["names"] if n[0] == "P"][0][1]
    logs = {sl["idx"]: sl for sl in r["sessions"]}
    p = []
    kids = []
    for x in logs[pidx]["recs"]:
        ts = x[-1]
        if x[0] == "E" and x[1] == "sA":
            p.append({"k": "enter", "gen": 0, "lvl": "", "i": 0, "kind": "", "ts": ts})
        elif x[0] == "X" and x[1] == "sA":
            p.append({"k": "exit", "gen": 0, "lvl": "", "i": 0, "kind": "", "ts": ts})
        elif x[0] == "M" and x[1] == "ev":
            a = [tracelib.val_str(v) for v in x[2]]
            p.append({"k": "ev", "gen": int(a[0]), "lvl": a[1], "i": int(a[2]), "kind": a[3], "ts": ts})
        elif x[0] == "M" and x[1] == "done":
            p.append({"k": "done", "gen": 0, "lvl": "", "i": 0, "kind": "", "ts": ts})
        elif x[0] == "M" and x[1] == "probe":
            p.append({"k": "probe", "gen": 0, "lvl": "", "i": 0, "kind": "", "ts": ts})
    for idx, sl in logs.items():
        if idx == pidx:
            continue
        lvl, gen, sends, open_s, nch, ncmd, cancelled, tend, fin = "?", 0, [], {}, 0, 0, False, 0, False
        seq = []
        for x in sl["recs"]:
            ts = x[-1]
            if x[0] == "M":
                a = [tracelib.val_str(v) for v in x[2]]
                if x[1] == "cstart":
                    lvl, gen = a[0], int(a[1])
                elif x[1] == "S0":
                    open_s[(a[2], a[3])] = ts
                elif x[1] == "S1":
                    sends.append({"i": int(a[2]), "kind": a[3], "t0": open_s.pop((a[2], a[3])), "t1": ts})
                elif x[1] == "FIN":
                    fin = True
                elif x[1] in ("R", "gdone"):
                    seq.append(x[1])
            elif x[0] == "CH":
                nch += 1
            elif x[0] == "XR":
                if x[1]["name"] == "error.platform.cancel":
                    cancelled = True
                elif x[1]["name"].split(".")[0] in ("k", "g"):
                    ncmd += 1
            elif x[0] == "END":
                tend = ts
        kids.append({"lvl": lvl, "gen": gen, "sends": sends, "nch": nch, "ncmd": ncmd, "cancelled": cancelled, "tend": tend,
                     "fin": fin, "ended": bool(sl["ended"]), "seq": seq})
    kids.sort(key=lambda k: (k["lvl"], k["gen"]))
    return {"p": p, "kids": kids, "horizon": r["horizon"], "half": PF_HALF_MS * 1000}


PF_C14 = {"event-after-cancel", "event-after-done", "done-invoke-stray", "child-count", "nested-invoke-starts", "orphan-session",
          "event-never-sent", "duplicate", "lost-event", "event-of-unknown-generation", "unknown-session"}
PF_C16 = {"timer-after-termination"}


def platform_family(prop, tier, seed, wd, V, owned, model=True):
    """scenarios generated from Platform.tla (simulation) + directed ones, judged by TracePlatform.tla; only the classes in
    `owned` are reported for this property.  Returns statistics for the evidence."""
    rng = random.Random(seed + 77)
    mc = live = {"distinct": 0, "states": 0}
    if model:
        # quick: 2 generations, 4 commands, 2 half ticks (74 k states); thorough: 5 commands, 4 half ticks (1.05 M states, liveness apart)
        big = {} if tier == "quick" else {"MaxCmds": "5", "MaxTime": "4"}
        mc = vlib.run_tlc("Platform", "Platform.cfg", wd, timeout=2400, workers=8, consts=big)
        mc["text"] = ""
        live = vlib.run_tlc("Platform", "PlatformLive.cfg", wd, timeout=1800, workers=6)
        live["text"] = ""
        # the three known-wrong mechanisms must stay refuted (the model has to be able to tell them apart)
        for (const, inv) in (("Cascade", "NoOrphan"), ("DiscardTimers", "DeadHasNoTimer"), ("AtomicExit", "DoneOnceAndLast")):
            if not vlib.run_tlc("Platform", "Platform.cfg", wd, timeout=900, workers=6, consts={const: "FALSE"}, expect_violation=inv)["refuted"]:
                raise ToolError("%s: Platform.tla no longer refutes %s = FALSE (%s)" % (prop, const, inv))
    nsim = 30 if tier == "quick" else 300
    sim = vlib.run_tlc("Platform", "PlatformSim.cfg", wd, workers=1, timeout=900, simulate=(nsim * 25, 120, seed + 5))
    behaviours, seen = [], set()
    for t in vlib.tlc_tuples(sim["text"], "REPLAY"):
        v = vlib.parse_tla_value(t)
        if v[1] not in seen and len(behaviours) < nsim:
            seen.add(v[1])
            behaviours.append(json.loads(v[1]))
    sim["text"] = ""
    if not behaviours:
        raise ToolError("%s: TLC simulation of Platform.tla produced no behaviour" % prop)
    jobs, meta = [], {}
    reps = 2 if tier == "quick" else 10
    for name, cs in PF_HAND.items():
        for rep in range(reps):
            jid = len(jobs) + 1
            cmds = [dict(op=c[0], d=c[1], t=c[2]) for c in cs]
            jobs.append(pf_job(jid, cmds, rng, jitter=rep % 2 == 1))
            meta[jid] = ("hand:" + name, cmds)
    for b in behaviours:
        jid = len(jobs) + 1
        jobs.append(pf_job(jid, b, rng, jitter=jid % 2 == 1))
        meta[jid] = ("tlc", b)
    slow_jobs = []
    for name, cs in PF_SLOW.items():
        for rep in range(reps):
            jid = len(jobs) + 1
            cmds = [dict(op=c[0], d=c[1], t=c[2]) for c in cs]
            j = pf_job(jid, cmds, rng)
            j.update(locks=True, slow=["fsm_", "ExecutorState", 80])
            jobs.append(j)
            slow_jobs.append(j)
            meta[jid] = ("hand:" + name, cmds)
    res = run_scen_jobs([j for j in jobs if j not in slow_jobs], wd, name="pf", threads=6)
    res.update(run_scen_jobs(slow_jobs, wd, name="pfslow", threads=1))
    again = [j for j in jobs if any(not sl["ended"] for sl in res[j["id"]]["sessions"]) and not res[j["id"]].get("stalls")]
    if again:
        res.update(run_scen_jobs(again, wd, name="pfagain", threads=1))
    scens = []
    for j in jobs:
        r = res[j["id"]]
        if r.get("errors"):
            raise ToolError("%s platform scenario %s: %s" % (prop, meta[j["id"]][0], r["errors"]))
        sc = pf_extract(r)
        sc["jid"] = j["id"]
        scens.append(sc)
        if r.get("panics") or r.get("other_panics") or r.get("stalls"):
            V.report("session-failure:platform:%s" % meta[j["id"]][0], "panic or stall in platform scenario %s" % meta[j["id"]][0],
                     {"result": {k2: r.get(k2) for k2 in ("panics", "other_panics", "stalls")}, "commands": meta[j["id"]][1]})
    with open(os.path.join(wd, "pftraces.ndjson"), "w") as f:
        for sc in scens:
            f.write(json.dumps({k2: sc[k2] for k2 in ("p", "kids", "horizon", "half")}) + "\n")
    tv = vlib.run_tlc("TracePlatform", "TracePlatform.cfg", wd, env={"TRACES": "pftraces.ndjson"}, timeout=1500)
    acc = len(vlib.tlc_tuples(tv["text"], "ACCEPT"))
    other = 0
    for t in vlib.tlc_tuples(tv["text"], "REJECT"):
        v = vlib.parse_tla_value(t)
        sc = scens[v[1] - 1]
        name, cmds = meta[sc["jid"]]
        if v[2] in owned:
            V.report("platform:%s:%s" % (v[2], name if name.startswith("hand:") else "tlc-behaviour"),
                     "%s in platform scenario %s" % (v[2], name), {"class": v[2], "scenario": name, "commands": cmds,
                                                                   "facts": {k2: sc[k2] for k2 in ("p", "kids")}})
        else:
            other += 1
    tv["text"] = ""
    if acc == 0 and not V.violations:
        raise ToolError("%s: no platform scenario accepted" % prop)
    nev = sum(1 for sc in scens for x in sc["p"] if x["k"] == "ev")
    return {"states": mc["distinct"] + live["distinct"] + tv["distinct"], "transitions": mc["states"] + live["states"] + tv["states"],
            "accepted": acc, "scenarios": len(scens), "behaviours": len(behaviours), "events": nev,
            "sessions": sum(len(sc["kids"]) for sc in scens), "foreign_rejects": other}


@check("C14")
def c14(tier, seed):
    t0 = time.time()
    wd = vlib.workdir("C14")
    V = vlib.Verdicts("C14")
    vlib.build_harness()
    mc = vlib.run_tlc("Invoke", "Invoke.cfg", wd, timeout=600)
    mc["text"] = ""
    # the filter of the implementation before repair d0e4562 (cancellation remembered per invoke id) must stay refuted:
    # the specification is only worth something if it can tell the two mechanisms apart
    if not vlib.run_tlc("Invoke", "InvokeOld.cfg", wd, timeout=600, expect_violation="NothingAfterCancel")["refuted"]:
        raise ToolError("C14: Invoke.tla no longer refutes the per-invoke-id filter (InvokeOld.cfg)")
    rng = random.Random(seed)
    S = {"settle": 40}
    scripts = {
        "full-cycle": ["go", S, "ext1", "ping", S, "finish", S, "ext2", "leave", S],
        "transient": ["tr", S, "ext1", "back", S, "ext2", S],
        "generated-id": ["tr", S, "back", S, "tr", S, "ext1", S, "back", {"settle": 80}],
        "reenter": ["go", S, "leave", S, "go", S, "finish", S, "leave", S],
        "rapid-enter-leave": ["go", "leave", "go", "leave", S],
        "rapid-finish-leave": ["go", S, "finish", "leave", S],
        "finish-then-events": ["go", S, "finish", S, "ext1", "ext2", "leave", S],
        "cancel-with-traffic": ["go", S, "ping", "ping", "ping", "leave", "ext1", S],
        "forwarded-stop": ["go", S, "ext1", "stop", S, "ext2", "leave", S],
        "failing-invoke-argument": ["err", S, "ext1", S, "back", S, "err", "ext2", "back", S],
        "forwarded-stop-rapid": ["go", "ext1", "stop", "ext2", "leave", "go", S, "leave", S],
    }
    jobs = []
    meta = {}
    dms = ["rfsm-expression"] if tier == "quick" else ["rfsm-expression", "ecmascript"]
    reps = int(os.environ.get("C14_REPS", "0")) or (4 if tier == "quick" else 30)
    for dm in dms:
        pdoc, inv = c14_docs(dm)
        for name, script in scripts.items():
            for rep in range(reps):
                steps = [{"start": "P"}, {"settle": 30}]
                for x in script:
                    steps.append(x if isinstance(x, dict) else {"send": "P", "event": x})
                    if rep % 2 == 1 and not isinstance(x, dict) and rng.random() < 0.3:
                        steps.append({"sleep_us": rng.randint(50, 3000)})
                jid = len(jobs) + 1
                job = {"id": jid, "sessions": [{"name": "P", "xml": pdoc}], "steps": steps, "timeout_ms": 30000}
                if dm == "ecmascript":
                    job["options"] = {"ecma:strict": ""}
                jobs.append(job)
                meta[jid] = (name, dm, inv)
    res = run_scen_jobs(jobs, wd, threads=4, isolate=True)
    if any(res[j["id"]].get("errors") for j in jobs):
        # a scenario that exhausts the process (threads, memory) spoils its neighbours: every scenario again, alone
        for j in jobs:
            res.update(run_scen_jobs([j], wd, name="alone%s" % j["id"], threads=1, timeout=200, isolate=True))
    for j in list(jobs):
        errs = " ".join(str(e) for e in (res[j["id"]].get("errors") or []))
        if res[j["id"]].get("died") is None and ("Resource temporarily unavailable" in errs or "deadline" in errs):
            res[j["id"]]["died"] = "resources"
            res[j["id"]]["tail"] = errs
        if res[j["id"]].get("died") is not None:
            name, dm, inv = meta[j["id"]]
            V.report("process-died:%s" % name, "the process running scenario %s (%s) died (rc %s): %s" % (name, dm, res[j["id"]]["died"], res[j["id"]]["tail"][-200:]),
                     {"scenario": name, "rc": res[j["id"]]["died"], "tail": res[j["id"]]["tail"]})
            jobs.remove(j)
    # a scenario in which some session log is still open at the end (a child's thread that did not get the CPU in time on a
    # loaded machine - or a child that really never ends) is run again on its own; only the repeated outcome is judged
    again = [j for j in jobs if any(not sl["ended"] for sl in res[j["id"]]["sessions"]) and not res[j["id"]].get("stalls")]
    for round_ in range(2):
        if not again:
            break
        res.update(run_scen_jobs(again, wd, name="again%d" % round_, threads=1))
        again = [j for j in again if any(not sl["ended"] for sl in res[j["id"]]["sessions"]) and not res[j["id"]].get("stalls")]
    scens = []
    for j in jobs:
        r = res[j["id"]]
        name, dm, inv = meta[j["id"]]
        if r.get("errors"):
            raise ToolError("C14 scenario %s: %s" % (name, r["errors"]))
        if any(not sl["ended"] for sl in r["sessions"]) and not r.get("stalls"):
            V.report("session-never-ended:%s" % name, "a session of scenario %s (%s) was still running after its parent had ended (3 runs)" % (name, dm),
                     {"scenario": name, "open_logs": [sl["idx"] for sl in r["sessions"] if not sl["ended"]]})
            continue
        pidx = [n for n in r["names"] if n[0] == "P"][0][1]
        logs = {sl["idx"]: [x[:-1] for x in sl["recs"]] for sl in r["sessions"]}
        r_sessions_raw = {sl["idx"]: sl["recs"] for sl in r["sessions"]}
        # the time at which the host sent each of its events (k-th host event of the log <-> k-th send)
        host_times = [sd[4] for sd in r.get("sends", []) if sd[2] == "P"]
        host_k = [0]

        def child_info(idx):
            recs = logs.get(idx, [])
            nm, a, hasb = "?%d" % idx, "", False
            recv = []
            cancelled = False
            ended = False
            for x in recs:
                if x[0] == "M" and x[1] == "cstart":
                    nm, a = tracelib.val_str(x[2][0]), "/".join(tracelib.val_str(y) for y in x[2][1:])
                elif x[0] == "M" and x[1] == "hasb":
                    hasb = True        # the undeclared 'b' exists in the child: a param value was created for it
                elif x[0] == "XR":
                    if x[1]["name"] == "error.platform.cancel":
                        cancelled = True
                    else:
                        recv.append(x[1]["name"])
                elif x[0] == "END":
                    ended = True
            tend = max([x2[-1] for x2 in r_sessions_raw.get(idx, []) if x2[0] == "END"] or [0])
            return {"name": nm, "recv": recv, "final": ended and not cancelled, "cancelled": cancelled, "a": a, "tend": tend,
                    "wanta": "1/7" if nm == "C1" else a, "hasb": hasb}
        prec = []
        kids = []
        for x in logs[pidx]:
            k = x[0]
            if k == "E" and not x[1].startswith("__id"):
                prec.append({"k": "enter", "a": x[1], "b": ""})
            elif k == "X":
                prec.append({"k": "exit", "a": x[1], "b": ""})
            elif k == "IDLE":
                prec.append({"k": "idle", "a": "", "b": ""})
            elif k == "CH":
                ci = child_info(x[1])
                kids.append(ci)
                prec.append({"k": "start", "a": ci["name"], "b": ""})
            elif k == "CI":
                prec.append({"k": "cancel", "a": "", "b": ""})
            elif k == "XR" and x[1]["name"] != "error.platform.cancel":
                # generated invoke ids (stateid.platformid) are replaced by a stable name
                gen = lambda t: re.sub(r"\b(s[A-Z])\.\d+$", r"gen:\1", t)
                ts_ = 0
                if not x[1]["invokeid"] and not x[1]["name"].startswith("done.invoke") and host_k[0] < len(host_times):
                    ts_ = host_times[host_k[0]]
                    host_k[0] += 1
                prec.append({"k": "xr", "a": gen(x[1]["name"]), "b": gen(x[1]["invokeid"] or ""), "ts": ts_})
            elif k == "M" and x[1] == "fin":
                prec.append({"k": "fin", "a": tracelib.val_str(x[2][0]) if x[2] else "", "b": ""})
            elif k == "SV":
                prec.append({"k": "sel", "a": "", "b": ""})
        scens.append({"inv": inv, "p": prec, "kids": kids, "jid": j["id"],
                      "panic": bool(r.get("panics") or r.get("other_panics")), "stall": bool(r.get("stalls"))})
    with open(os.path.join(wd, "traces.ndjson"), "w") as f:
        for sc in scens:
            f.write(json.dumps({k2: sc[k2] for k2 in ("inv", "p", "kids")}) + "\n")
    tv = vlib.run_tlc("TraceC14", "TraceC14.cfg", wd, env={"TRACES": "traces.ndjson"}, timeout=1500)
    acc = len(vlib.tlc_tuples(tv["text"], "ACCEPT"))
    for t in vlib.tlc_tuples(tv["text"], "REJECT"):
        v = vlib.parse_tla_value(t)
        sc = scens[v[1] - 1]
        name, dm, inv = meta[sc["jid"]]
        V.report("%s:%s" % (v[2], name), "%s in scenario %s (%s)" % (v[2], name, dm),
                 {"class": v[2], "scenario": name, "parent_records": [[x["k"], x["a"], x["b"]] for x in sc["p"]], "children": sc["kids"]})
    tv["text"] = ""
    for sc in scens:
        if sc["panic"] or sc["stall"]:
            V.report("session-%s:%s" % ("panic" if sc["panic"] else "stall", meta[sc["jid"]][0]), "scenario %s" % meta[sc["jid"]][0],
                     {"result": {k2: res[sc["jid"]].get(k2) for k2 in ("panics", "other_panics", "stalls")}})
    if acc == 0 and not V.violations:
        raise ToolError("C14: nothing accepted")
    pf = platform_family("C14", tier, seed, wd, V, PF_C14)
    rc = V.finish()
    cov = {"states": mc["distinct"] + tv["distinct"] + pf["states"], "transitions": mc["states"] + tv["states"] + pf["transitions"],
           "traces_validated_against_impl": acc + pf["accepted"], "platform": pf,
           "samples": [{"scenario": meta[scens[0]["jid"]][0], "parent_records": [[x["k"], x["a"], x["b"]] for x in scens[0]["p"][:25]]}],
           "evaluations": len(scens), "distinct_nontrivial": sum(len(sc["kids"]) for sc in scens),
           "rule": "Invoke.tla model-checked (all orders of child events, completion and cancellation; InvokeOncePerStableEntry, "
                   "NothingAfterCancel, DoneInvokeOnceAndLast); %d recorded parent/child scenarios (10 scripts incl. transient state, "
                   "re-entry, rapid enter/leave, finish racing leave, cancellation under traffic) validated by TraceC14.tla; "
                   "non-trivial = child sessions started.  Platform.tla (parent, child, grandchild; timers, cancellation cascade, "
                   "two-step exit) model-checked with its three refuted variants; %d behaviours simulated from it + directed "
                   "scenarios (%d in all) run in the interpreter and judged by TracePlatform.tla" % (len(scens), pf["behaviours"], pf["scenarios"])}
    vlib.write_evidence("C14", tier, seed, "model_checking", cov, time.time() - t0, len(V.violations),
                        ["child creation is observed as the creation of the child's Fsm on the parent's thread (tracer factory)",
                         "schedules are steered by settle pauses and jitter, not enumerated"])
    return rc


# ---------------------------------------------------------------------------------------------
# C16: delayed send / cancel / termination (Delay.tla, TraceC16.tla)
# ---------------------------------------------------------------------------------------------
C16_HALF_MS = 20
# spellings of a delay: (attribute text, [mant, scale, unit]); kind "delay" | "expr" (delayexpr with a literal) | "var"
def c16_spellings(ms):
    out = [("delay", "%dms" % ms, [ms, 0, "ms"]), ("delay", "%d.0ms" % ms, [ms * 10, 1, "ms"]),
           ("expr", "'%dms'" % ms, [ms, 0, "ms"]), ("var", "%dms" % ms, [ms, 0, "ms"])]
    if ms % 10 == 0 and ms < 1000:
        out += [("delay", "0.%02ds" % (ms // 10), [ms // 10, 2, "s"]), ("delay", ".%02ds" % (ms // 10), [ms // 10, 2, "s"]),
                ("expr", "'0.%02ds'" % (ms // 10), [ms // 10, 2, "s"])]
    if ms % 60 == 0:
        out += [("delay", "0.%03dm" % (ms // 60), [ms // 60, 3, "m"])]
    if ms % 1000 == 0:
        out += [("delay", "%ds" % (ms // 1000), [ms // 1000, 0, "s"])]
    return out


def c16_doc(name, forms, cancel_ids, pairs=()):
    """forms: list of dict(k, id, kind, text, peer); pairs: (ka, kb) -> a transition 'pair.ka.kb' executing both sends back to back"""
    hdr = '<scxml xmlns="http://www.w3.org/2005/07/scxml" version="1.0" datamodel="rfsm-expression" name="%s">' % name
    dm = '<datamodel><data id="x" expr="0"/><data id="n" expr="0"/><data id="peer" expr="0"/><data id="idl" expr="\'none\'"/>'
    body = ""
    for f in forms:
        attrs = 'event="ev.%d"' % f["k"]
        if f["id"] == "@loc":
            attrs += ' idlocation="idl"'        # the platform generates the id and stores it in the data element 'idl'
        elif f["id"]:
            attrs += ' id="%s"' % f["id"]
        if f["kind"] == "none":
            pass
        elif f["kind"] == "delay":
            attrs += ' delay="%s"' % f["text"]
        elif f["kind"] == "expr":
            attrs += ' delayexpr="%s"' % f["text"]
        else:
            dm += '<data id="dl%d" expr="\'%s\'"/>' % (f["k"], f["text"])
            attrs += ' delayexpr="dl%d"' % f["k"]
        if f["peer"]:
            attrs += " targetexpr=\"'#_scxml_' + peer\""
        blocks = getattr(c16_doc, "_blocks", None)
        if blocks is None or f is forms[0]:
            blocks = c16_doc._blocks = {}
        blocks[f["k"]] = ('<assign location="n" expr="n + 1"/><script>mark(\'S0\', %d, n, x)</script>'
                          '<send %s><param name="from" expr="\'%s\'"/><param name="k" expr="%d"/><param name="i" expr="n"/><param name="v" expr="x"/></send>'
                          '<script>mark(\'S1\', %d, n)</script>') % (f["k"], attrs, name, f["k"], f["k"])
        body += '<transition event="send.%d">%s</transition>' % (f["k"], blocks[f["k"]])
    for (ka, kb) in pairs:
        body += '<transition event="pair.%d.%d">%s%s</transition>' % (ka, kb, c16_doc._blocks[ka], c16_doc._blocks[kb])
    if "@loc" in cancel_ids:
        body += ('<transition event="cancel.gen"><script>mark(\'C0\', \'@loc\')</script><cancel sendidexpr="idl"/>'
                 '<script>mark(\'C1\', \'@loc\')</script></transition>')
    for cid in [c_ for c_ in cancel_ids if c_ != "@loc"]:
        body += ('<transition event="cancel.%s"><script>mark(\'C0\', \'%s\')</script><cancel sendid="%s"/>'
                 '<script>mark(\'C1\', \'%s\')</script></transition>') % (cid, cid, cid, cid)
    dm += "</datamodel>"
    return (hdr + dm + '<state id="s">'
            '<transition event="init"><assign location="peer" expr="_event.data.peer"/></transition>'
            + body +
            '<transition event="change"><assign location="x" expr="1 - x"/><script>mark(\'CH\', x)</script></transition>'
            '<transition event="quit" target="f"/>'
            "<transition event=\"ev.*\"><script>mark('R', _event.data.from, _event.data.k, _event.data.i, _event.data.v)</script></transition>"
            '</state><final id="f"/></scxml>')


def c16_job(jid, cmds, rng, half_ms=C16_HALF_MS, tail_ms=None):
    """cmds: [{op, s, id, d (half ticks), tgt, t (half ticks)}] -> scenario job + the send forms"""
    forms = {}
    flist = []
    for c in cmds:
        if c["op"] == "send":
            key = (c["id"], c["d"], c["s"] != c["tgt"])
            if key not in forms:
                ms = c["d"] * half_ms
                kind, text, spell = rng.choice(c16_spellings(ms))
                forms[key] = {"k": len(flist) + 1, "id": c["id"], "kind": kind, "text": text, "peer": c["s"] != c["tgt"],
                              "spell": spell, "ms": ms}
                flist.append(forms[key])
    cancel_ids = sorted({c["id"] for c in cmds if c["op"] == "cancel"})
    sessions = [{"name": n, "xml": c16_doc(n, flist, cancel_ids)} for n in ("A", "B")]
    steps = [{"start": "A"}, {"start": "B"}, {"settle": 20},
             {"send": "A", "event": {"name": "init", "params": {"peer": "$sid:B"}}},
             {"send": "B", "event": {"name": "init", "params": {"peer": "$sid:A"}}}, {"settle": 20}]
    tprev = 0
    for c in cmds:
        if c["t"] > tprev:
            steps.append({"sleep": (c["t"] - tprev) * half_ms})
            tprev = c["t"]
        else:
            steps.append({"sleep_us": 1200})
        if c["op"] == "send":
            ev = "send.%d" % forms[(c["id"], c["d"], c["s"] != c["tgt"])]["k"]
        elif c["op"] == "cancel":
            ev = "cancel.%s" % (c["id"] if c["id"] != "@loc" else "gen")
        else:
            ev = c["op"]
        steps.append({"send": c["s"], "event": ev})
    maxd = max([c["d"] for c in cmds if c["op"] == "send"] or [0])
    steps.append({"sleep": tail_ms if tail_ms is not None else maxd * half_ms + 1000})
    return {"id": jid, "sessions": sessions, "steps": steps, "timeout_ms": 60000}, flist


def c16_extract(r, flist):
    """recorded scenario -> facts for TraceC16.tla"""
    byk = {f["k"]: f for f in flist}
    logname = {idx: n for (n, idx) in [(x[0], x[1]) for x in r["names"]]}
    sends, cancels, recvs, ends = [], [], [], []
    inst_of = {}
    for sl in r["sessions"]:
        name = logname.get(sl["idx"])
        if name is None:
            continue
        open_s, open_c = {}, {}
        last_gen = "@none"          # label of the send whose generated id the location 'idl' currently holds
        for x in sl["recs"]:
            ts = x[-1]
            if x[0] == "M":
                tag, a = x[1], [tracelib.val_str(v) for v in x[2]]
                if tag == "S0":
                    open_s[(a[0], a[1])] = (ts, a[2])
                elif tag == "S1":
                    t0, val = open_s.pop((a[0], a[1]))
                    f = byk[int(a[0])]
                    inst = "%s.%s.%s" % (name, a[0], a[1])
                    sid_ = f["id"]
                    if sid_ == "@loc":
                        sid_ = last_gen = "@gen:" + inst       # every execution generates a fresh id
                    sends.append({"inst": inst, "sess": name, "id": sid_, "mant": f["spell"][0], "scale": f["spell"][1],
                                  "unit": f["spell"][2], "t0": t0, "t1": ts, "val": val,
                                  "tgt": ("B" if name == "A" else "A") if f["peer"] else name})
                elif tag == "C0":
                    open_c[a[0]] = ts
                elif tag == "C1":
                    cancels.append({"sess": name, "id": a[0] if a[0] != "@loc" else last_gen, "c0": open_c.pop(a[0]), "c1": ts})
                elif tag == "R":
                    recvs.append({"inst": "%s.%s.%s" % (a[0], a[1], a[2]), "sess": name, "t": ts, "val": a[3]})
            elif x[0] == "END":
                ends.append({"sess": name, "t": ts})
        # a send whose second mark is missing did not complete (error in the element): not a delayed send
    return {"sends": sends, "cancels": cancels, "recvs": recvs, "ends": ends, "horizon": r["horizon"]}


C16_HAND = {
    # name: (commands in half ticks of 20 ms, forced spellings or None)
    "same-id-twice": [("send", "A", "x", 3, "A", 0), ("send", "A", "x", 5, "A", 0)],
    "same-id-twice-short-second": [("send", "A", "x", 5, "A", 0), ("send", "A", "x", 1, "A", 0)],
    "same-form-twice": [("send", "A", "x", 3, "A", 0), ("send", "A", "x", 3, "A", 0), ("send", "A", "", 3, "A", 0), ("send", "A", "", 3, "A", 0)],
    "cancel-before-due": [("send", "A", "x", 5, "A", 0), ("send", "A", "y", 5, "A", 0), ("cancel", "A", "x", 0, "A", 2)],
    "cancel-after-due": [("send", "A", "x", 1, "A", 0), ("cancel", "A", "x", 0, "A", 4)],
    "cancel-foreign-session": [("send", "A", "x", 5, "A", 0), ("send", "B", "x", 5, "B", 0), ("cancel", "B", "x", 0, "B", 2)],
    "cancel-peer-target": [("send", "A", "x", 5, "B", 0), ("cancel", "B", "x", 0, "B", 2), ("send", "A", "y", 5, "B", 2), ("cancel", "A", "y", 0, "A", 4)],
    "change-after-send": [("send", "A", "", 3, "A", 0), ("change", "A", "", 0, "A", 0), ("send", "A", "", 3, "B", 0), ("change", "A", "", 0, "A", 2)],
    "quit-with-pending-to-peer": [("send", "A", "", 7, "B", 0), ("send", "A", "x", 1, "B", 0), ("quit", "A", "", 0, "A", 4)],
    "quit-receiver": [("send", "A", "", 5, "B", 0), ("quit", "B", "", 0, "B", 2), ("send", "A", "", 1, "A", 2)],
    "long-then-short": [("send", "A", "", 7, "B", 0), ("send", "A", "", 3, "B", 0), ("send", "A", "", 1, "B", 0), ("send", "A", "", 5, "B", 0)],
    "resend-after-cancel": [("send", "A", "x", 5, "A", 0), ("cancel", "A", "x", 0, "A", 2), ("send", "A", "x", 3, "A", 2)],
    # ids generated by the platform (idlocation), cancelled through the location
    "cancel-generated-id": [("send", "A", "@loc", 5, "A", 0), ("send", "A", "y", 5, "A", 0), ("cancel", "A", "@loc", 0, "A", 2)],
    "generated-ids-two": [("send", "A", "@loc", 5, "B", 0), ("send", "A", "@loc", 7, "B", 0), ("cancel", "A", "@loc", 0, "A", 2)],
}


@check("C16")
def c16(tier, seed):
    t0 = time.time()
    wd = vlib.workdir("C16")
    V = vlib.Verdicts("C16")
    vlib.build_harness()
    rng = random.Random(seed)
    mc = vlib.run_tlc("Delay", "Delay.cfg", wd, timeout=900, workers=12)
    mc["text"] = ""
    # the bookkeeping of the implementation before repair 65756c8 (one timer guard per send id) must stay refuted
    if not vlib.run_tlc("Delay", "Delay.cfg", wd, timeout=900, workers=4, consts={"MapSemantics": "TRUE"},
                        expect_violation="CancelIsolated")["refuted"]:
        raise ToolError("C16: Delay.tla no longer refutes MapSemantics = TRUE")
    nsim = 40 if tier == "quick" else 400
    sim = vlib.run_tlc("Delay", "DelaySim.cfg", wd, workers=1, timeout=600, simulate=(nsim, 40, seed + 1))
    behaviours = []
    seen = set()
    for t in vlib.tlc_tuples(sim["text"], "REPLAY"):
        v = vlib.parse_tla_value(t)
        if v[1] in seen:
            continue
        seen.add(v[1])
        behaviours.append(json.loads(v[1]))
    sim["text"] = ""
    if not behaviours:
        raise ToolError("C16: TLC simulation produced no behaviour")
    jobs, meta = [], {}
    reps = 2 if tier == "quick" else 6
    for name, cs in C16_HAND.items():
        cmds = [dict(op=c[0], s=c[1], id=c[2], d=c[3], tgt=c[4], t=c[5]) for c in cs]
        for rep in range(reps):
            jid = len(jobs) + 1
            job, fl = c16_job(jid, cmds, rng)
            jobs.append(job)
            meta[jid] = ("hand:" + name, fl, cmds)
    # units: long delays in other spellings (run concurrently with everything else)
    for (nm, ms) in [("units-1s", 1000), ("units-120ms", 120), ("units-300ms", 300)]:
        for sp in c16_spellings(ms):
            jid = len(jobs) + 1
            cmds = [dict(op="send", s="A", id="", d=ms // C16_HALF_MS, tgt="A", t=0)]
            job, fl = c16_job(jid, cmds, rng)
            fl[0].update(kind=sp[0], text=sp[1], spell=sp[2])
            job["sessions"] = [{"name": n, "xml": c16_doc(n, fl, [])} for n in ("A", "B")]
            jobs.append(job)
            meta[jid] = ("hand:%s:%s" % (nm, sp[1]), fl, cmds)
    # fractional milliseconds: the delay is the written duration rounded to the millisecond; two sends executed back to back
    # whose rounded delays differ must be delivered in the order of those delays (deterministic, no timing window)
    FR = [("1.9ms", [19, 1, "ms"], "1ms", [1, 0, "ms"]), ("2.5ms", [25, 1, "ms"], "2ms", [2, 0, "ms"]),
          ("0.0019s", [19, 4, "s"], "1ms", [1, 0, "ms"]), ("1.5ms", [15, 1, "ms"], "1ms", [1, 0, "ms"]),
          ("0.6ms", [6, 1, "ms"], "", [0, 0, "ms"]), ("0.0007s", [7, 4, "s"], "", [0, 0, "ms"]), ("3.7ms", [37, 1, "ms"], "3ms", [3, 0, "ms"])]
    for (ta, spa, tb, spb) in FR:
        for rep in range(2 if tier == "quick" else 6):
            for (tgt_peer) in (False, True):
                jid = len(jobs) + 1
                fa = {"k": 1, "id": "", "kind": "delay", "text": ta, "peer": tgt_peer, "spell": spa, "ms": 0}
                fb = {"k": 2, "id": "", "kind": "delay" if tb else "none", "text": tb, "peer": tgt_peer, "spell": spb, "ms": 0}
                sessions = [{"name": n, "xml": c16_doc(n, [fa, fb], [], pairs=[(1, 2)])} for n in ("A", "B")]
                steps = [{"start": "A"}, {"start": "B"}, {"settle": 20},
                         {"send": "A", "event": {"name": "init", "params": {"peer": "$sid:B"}}},
                         {"send": "B", "event": {"name": "init", "params": {"peer": "$sid:A"}}}, {"settle": 20}]
                for _ in range(3):
                    steps += [{"send": "A", "event": "pair.1.2"}, {"sleep": 30}]
                steps.append({"sleep": 600})
                jobs.append({"id": jid, "sessions": sessions, "steps": steps, "timeout_ms": 60000})
                meta[jid] = ("hand:fractional:%s/%s" % (ta, tb or "now"), [fa, fb], [])
    for b in behaviours:
        jid = len(jobs) + 1
        job, fl = c16_job(jid, b, rng)
        jobs.append(job)
        meta[jid] = ("tlc", fl, b)
    res = run_scen_jobs(jobs, wd, threads=6)
    scens = []
    for j in jobs:
        r = res[j["id"]]
        if r.get("errors"):
            raise ToolError("C16 scenario %s: %s" % (meta[j["id"]][0], r["errors"]))
        sc = c16_extract(r, meta[j["id"]][1])
        sc["jid"] = j["id"]
        sc["bad"] = bool(r.get("panics") or r.get("other_panics") or r.get("stalls"))
        scens.append(sc)
    with open(os.path.join(wd, "traces.ndjson"), "w") as f:
        for sc in scens:
            f.write(json.dumps({k2: sc[k2] for k2 in ("sends", "cancels", "recvs", "ends", "horizon")}) + "\n")
    tv = vlib.run_tlc("TraceC16", "TraceC16.cfg", wd, env={"TRACES": "traces.ndjson"}, timeout=1500)
    stats = [0, 0, 0, 0]
    acc = 0
    for t in vlib.tlc_tuples(tv["text"], "ACCEPT"):
        v = vlib.parse_tla_value(t)
        acc += 1
        for q in range(4):
            stats[q] += v[2][q]
    for t in vlib.tlc_tuples(tv["text"], "REJECT"):
        v = vlib.parse_tla_value(t)
        sc = scens[v[1] - 1]
        name, fl, cmds = meta[sc["jid"]]
        V.report("%s:%s" % (v[2], name if name.startswith("hand:") else "tlc-behaviour"), "%s in scenario %s" % (v[2], name),
                 {"class": v[2], "scenario": name, "commands": cmds, "forms": fl,
                  "facts": {k2: sc[k2] for k2 in ("sends", "cancels", "recvs", "ends", "horizon")}})
    tv["text"] = ""
    for sc in scens:
        if sc["bad"]:
            r = res[sc["jid"]]
            V.report("session-failure:%s" % meta[sc["jid"]][0], "panic or stall in scenario %s" % meta[sc["jid"]][0],
                     {"result": {k2: r.get(k2) for k2 in ("panics", "other_panics", "stalls")}, "commands": meta[sc["jid"]][2]})
    if acc == 0 and not V.violations:
        raise ToolError("C16: nothing accepted")
    pf = platform_family("C16", tier, seed, wd, V, PF_C16, model=False)
    rc = V.finish()
    cov = {"states": mc["distinct"] + tv["distinct"] + pf["states"], "transitions": mc["states"] + tv["states"] + pf["transitions"],
           "traces_validated_against_impl": acc + pf["accepted"], "platform": pf,
           "samples": [{"scenario": meta[scens[0]["jid"]][0], "commands": meta[scens[0]["jid"]][2], "sends": scens[0]["sends"][:3],
                        "recvs": scens[0]["recvs"][:3]}],
           "evaluations": len(scens), "distinct_nontrivial": stats[0],
           "rule": "Delay.tla model-checked (2 sessions, ids x/none, delays 1 and 3 half ticks, 2 sends, 3 commands: NoEarly, AtMostOnce, "
                   "ValueAtExec, DueOrder, CancelPrevents, TerminationDiscards, CancelIsolated, liveness ExactlyOnce); %d behaviours "
                   "simulated by TLC from the same spec (5 sends / 9 commands) + %d directed scenarios replayed in the interpreter "
                   "with randomly chosen spellings of each delay; TraceC16.tla judged every send from the measured intervals: "
                   "%d delivered, %d certainly cancelled, %d certainly discarded by termination, %d had to be delivered"
                   % (len(behaviours), len(scens) - len(behaviours), stats[0], stats[1], stats[2], stats[3])}
    vlib.write_evidence("C16", tier, seed, "model_checking", cov, time.time() - t0, len(V.violations),
                        ["a timer later than 400 ms counts as a lost event; cancellations / terminations within the measured "
                         "uncertainty of the due time are not judged", "timer and session threads are scheduled by the OS, not enumerated"])
    return rc


# ---------------------------------------------------------------------------------------------
# C20: BasicHTTP event I/O processor (Http.tla, TraceC20.tla)
# ---------------------------------------------------------------------------------------------
HTTP_TYPE = "http://www.w3.org/TR/scxml/#BasicHTTPEventProcessor"
C20_TOKENS = ["plain", "a.b.c", "sp ace", "amp&er", "eq=ual", "plus+sign", "pct%41", "q?x#y", "slash/back\\", "uml-\u00e4\u00f6\u00fc",
              "cjk-\u65e5\u672c", "emoji-\U0001F600", "quote'\"", "semi;colon", "lt<gt>", "a  b", " lead", "trail ", "%", "+", "%zz", "e\u0301"]
C20_VALUES = C20_TOKENS + ["", "line\nbreak", "cr\r\nlf", "tab\there", "0", "-1", "true", "null", "x" * 300]


def c20_docs(dm):
    hdr = '<scxml xmlns="http://www.w3.org/2005/07/scxml" version="1.0" datamodel="%s" name="%s">'
    R = (hdr % (dm, "R")) + '<state id="s">' \
        "<onentry><script>mark('loc', _ioprocessors['%s'].location)</script></onentry>" % HTTP_TYPE + \
        '<transition event="intro"><send targetexpr="\'#_scxml_\' + _event.data.peer" event="loc">' \
        '<param name="loc" expr="_ioprocessors[\'%s\'].location"/></send></transition>' % HTTP_TYPE + \
        "<transition event=\"*\"><script>mark('R', _event.name, _event.data, _event.type)</script></transition></state></scxml>"
    S = (hdr % (dm, "S")) + '<datamodel><data id="peerloc" expr="\'\'"/></datamodel><state id="s">' \
        '<transition event="loc"><assign location="peerloc" expr="_event.data.loc"/></transition>' \
        '<transition event="fire.all"><send type="%s" targetexpr="peerloc" eventexpr="_event.data.n">' \
        '<param name="ps" expr="_event.data.s"/><param name="pi" expr="_event.data.i"/><param name="pb" expr="true"/>' \
        '<param name="pn" expr="-7"/></send></transition>' % HTTP_TYPE + \
        '<transition event="fire.none"><send type="%s" targetexpr="peerloc" eventexpr="_event.data.n"/></transition>' % HTTP_TYPE + \
        '<transition event="fire.short"><send type="basichttp" targetexpr="peerloc" eventexpr="_event.data.n">' \
        '<param name="%s" expr="_event.data.s"/></send></transition>' % "k e&amp;y" + \
        "</state></scxml>"
    return R, S


def http_lock():
    import fcntl
    os.makedirs(vlib.WORK, exist_ok=True)
    f = open(os.path.join(vlib.WORK, ".http.lock"), "w")
    t0 = time.time()
    while True:
        try:
            fcntl.flock(f, fcntl.LOCK_EX | fcntl.LOCK_NB)
            break
        except OSError:
            if time.time() - t0 > 900:
                raise ToolError("C20: another check holds the HTTP port lock for more than 15 minutes")
            time.sleep(0.5)
    import socket
    t0 = time.time()
    while True:
        sk = socket.socket()
        try:
            sk.bind(("127.0.0.1", 5555))
            sk.close()
            break
        except OSError:
            sk.close()
            if time.time() - t0 > 60:
                raise ToolError("C20: port 5555 (hard-coded in BasicHTTPEventIOProcessor::new) is in use by another process")
            time.sleep(0.5)
    return f


@check("C20")
def c20(tier, seed):
    t0 = time.time()
    wd = vlib.workdir("C20")
    V = vlib.Verdicts("C20")
    vlib.build_harness()
    rng = random.Random(seed)
    mc = vlib.run_tlc("MCHttp", "MCHttp.cfg", wd, timeout=900, workers=8,
                      consts=None if tier == "quick" else {"Clients": '{"c1","c2","c3"}'})
    mc["text"] = ""
    NAME = "_scxmleventname"
    jobs, meta = [], {}
    tagc = [0]

    def req(kind, tok, plus, client):
        """-> (step, post fact)"""
        tagc[0] += 1
        tag = tagc[0]
        name = "%s.%d" % (tok, tag)
        sid, to = "live", "R"
        fields = [[NAME, name]]
        if kind == "params":
            fields = [[rng.choice(C20_TOKENS) + ".k1", rng.choice(C20_VALUES)], [NAME, name], [rng.choice(C20_TOKENS) + ".k2", rng.choice(C20_VALUES)]]
            rng.shuffle(fields)
        elif kind == "content":
            fields = [[NAME, name], ["_content", rng.choice(C20_VALUES)]]
            rng.shuffle(fields)
        elif kind == "noname":
            fields = [[rng.choice(C20_TOKENS) + ".k", rng.choice(C20_VALUES)]] if rng.random() < 0.7 else []
        elif kind == "wrongcase":
            fields = [["_SCXMLEVENTNAME", name], ["p", "1"]]
        elif kind == "unknown":
            sid, to = "unknown", rng.choice(["raw:4000000", "raw:0", "raw:77777"])
        elif kind == "text":
            sid, to = "text", "raw:" + rng.choice(["abc", "1x", "-1", "1.5", "99999999999", "0x10", "%41"])
        step = {"post": to, "tag": tag, "fields": fields, "plus": plus}
        return step, {"tag": tag, "client": client, "sid": sid, "fields": fields, "status": None}

    kinds = ["plain", "params", "content", "noname", "wrongcase", "unknown", "text"]
    dms = ["ecmascript"] if tier == "quick" else ["ecmascript", "rfsm-expression"]
    for dm in dms:
        R, S = c20_docs(dm)
        base = [{"start": "R"}, {"start": "S"}, {"settle": 30},
                {"send": "R", "event": {"name": "intro", "params": {"peer": "$sid:S"}}}, {"settle": 30}]
        opts = {"ecma:strict": ""} if dm == "ecmascript" else None
        # (1) sequential: every request kind x every token, both spellings of a blank
        steps, posts = list(base), []
        for tok in C20_TOKENS:
            for kind in kinds:
                st, f = req(kind, tok, rng.random() < 0.5, "c1")
                steps.append(st)
                posts.append(f)
        steps.append({"settle": 60})
        jid = len(jobs) + 1
        jobs.append({"id": jid, "http": True, "sessions": [{"name": "R", "xml": R}, {"name": "S", "xml": S}], "steps": steps, "timeout_ms": 120000})
        meta[jid] = ("sequential:" + dm, posts, [])
        # (2) concurrent clients
        nclients, nposts = (4, 12) if tier == "quick" else (8, 60)
        groups, posts = [], []
        for c in range(nclients):
            g = []
            for _ in range(nposts):
                st, f = req(rng.choice(kinds), rng.choice(C20_TOKENS), rng.random() < 0.5, "c%d" % (c + 1))
                g.append(st)
                posts.append(f)
            groups.append(g)
        jid = len(jobs) + 1
        jobs.append({"id": jid, "http": True, "sessions": [{"name": "R", "xml": R}, {"name": "S", "xml": S}],
                     "steps": base + [{"threads": groups}, {"settle": 60}], "timeout_ms": 120000})
        meta[jid] = ("concurrent:" + dm, posts, [])
        # (3) the processor as sender: S -> location published by R
        steps, psends = list(base), []
        for tok in C20_TOKENS:
            for form in ("all", "none", "short"):
                tagc[0] += 1
                name = "%s.%d" % (tok, tagc[0])
                sval = rng.choice(C20_VALUES)
                ival = rng.randint(0, 100000)
                steps.append({"send": "S", "event": {"name": "fire." + form, "params": {"n": name, "s": sval, "i": ival}}})
                if form == "all":
                    params = [["ps", "str", 0, sval], ["pi", "int", ival, ""], ["pb", "bool", 1, ""], ["pn", "negint", 7, ""]]
                elif form == "short":
                    params = [["k e&y", "str", 0, sval]]
                else:
                    params = []
                psends.append({"name": name, "params": params})
            steps.append({"settle": 10})
        steps.append({"settle": 150})
        jid = len(jobs) + 1
        jobs.append({"id": jid, "http": True, "sessions": [{"name": "R", "xml": R}, {"name": "S", "xml": S}], "steps": steps, "timeout_ms": 180000})
        meta[jid] = ("send:" + dm, [], psends)
        for j in jobs[-3:]:
            if opts:
                j["options"] = opts
    lock = http_lock()
    try:
        res = run_scen_jobs(jobs, wd, threads=1, timeout=1500)
    finally:
        lock.close()
    scens = []
    for j in jobs:
        r = res[j["id"]]
        name, posts, psends = meta[j["id"]]
        if r.get("tool_error") or r.get("errors"):
            raise ToolError("C20 scenario %s: %s" % (name, r.get("errors")))
        st = {p[0]: p[1] for p in r["posts"]}
        for f in posts:
            f["status"] = st.get(f["tag"], 0)
        ridx = [n for n in r["names"] if n[0] == "R"][0][1]
        recvs = []
        for sl in r["sessions"]:
            if sl["idx"] != ridx:
                continue
            for x in sl["recs"]:
                if x[0] == "M" and x[1] == "R":
                    nm, data = x[2][0], x[2][1]
                    if isinstance(data, dict) and "_none" not in data and "_err" not in data:
                        rec = {"name": nm, "kind": "map", "map": [[k2, tracelib.val_str(v2)] for k2, v2 in sorted(data.items())], "text": ""}
                    elif isinstance(data, str):
                        rec = {"name": nm, "kind": "text", "map": [], "text": data}
                    elif data is None or isinstance(data, dict):
                        rec = {"name": nm, "kind": "none", "map": [], "text": ""}
                    else:
                        rec = {"name": nm, "kind": "text", "map": [], "text": tracelib.val_str(data)}
                    recvs.append(rec)
        scens.append({"posts": posts, "psends": psends, "recvs": recvs, "jid": j["id"],
                      "bad": bool(r.get("panics") or r.get("other_panics") or r.get("stalls"))})
    with open(os.path.join(wd, "traces.ndjson"), "w") as f:
        for sc in scens:
            f.write(json.dumps({k2: sc[k2] for k2 in ("posts", "psends", "recvs")}) + "\n")
    tv = vlib.run_tlc("TraceC20", "TraceC20.cfg", wd, env={"TRACES": "traces.ndjson"}, timeout=1500)
    acc = len(vlib.tlc_tuples(tv["text"], "ACCEPT"))
    for t in vlib.tlc_tuples(tv["text"], "REJECT"):
        v = vlib.parse_tla_value(t)
        sc = scens[v[1] - 1]
        name = meta[sc["jid"]][0]
        culprit = [p for p in sc["posts"] if p["tag"] == v[3]] or ([sc["psends"][v[3] - 1]] if sc["psends"] and 0 < v[3] <= len(sc["psends"]) else [])
        V.report("%s:%s" % (v[2], name.split(":")[0]), "%s in scenario %s: %s" % (v[2], name, json.dumps(culprit)[:300]),
                 {"class": v[2], "scenario": name, "culprit": culprit,
                  "recvs_with_that_name": [r2 for r2 in sc["recvs"] if culprit and r2["name"] in json.dumps(culprit, ensure_ascii=False)][:3]})
    tv["text"] = ""
    for sc in scens:
        if sc["bad"]:
            r = res[sc["jid"]]
            V.report("session-failure:%s" % meta[sc["jid"]][0], "panic or stall in scenario %s" % meta[sc["jid"]][0],
                     {"result": {k2: r.get(k2) for k2 in ("panics", "other_panics", "stalls")}})
    if acc == 0 and not V.violations:
        raise ToolError("C20: nothing accepted")
    rc = V.finish()
    nposts = sum(len(sc["posts"]) for sc in scens)
    nacc = sum(1 for sc in scens for p in sc["posts"] if p["status"] == 200)
    cov = {"states": mc["distinct"] + tv["distinct"], "transitions": mc["states"] + tv["states"], "traces_validated_against_impl": acc,
           "samples": [{"scenario": meta[scens[0]["jid"]][0], "posts": scens[0]["posts"][:3], "recvs": scens[0]["recvs"][:3]}],
           "evaluations": nposts + sum(len(sc["psends"]) for sc in scens), "distinct_nontrivial": nacc,
           "rule": "Http.tla model-checked (concurrent clients x all pairs of 7 request shapes: ExactlyAccepted, RepliesTruthful, "
                   "PerClientOrder, Faithful); %d HTTP requests (%d accepted) - 7 request kinds x %d tokens needing URL encoding, blanks "
                   "as '+' and as %%20, sequentially and from concurrent clients - and %d events sent through the processor to the "
                   "published location were judged by TraceC20.tla with Http!Handle"
                   % (nposts, nacc, len(C20_TOKENS), sum(len(sc["psends"]) for sc in scens))}
    vlib.write_evidence("C20", tier, seed, "model_checking", cov, time.time() - t0, len(V.violations),
                        ["the port 5555 is hard-coded in the implementation: scenarios run one at a time under a file lock",
                         "requests with duplicate field names or with both _content and other fields are not generated (the property does not say what they mean)"])
    return rc


# ---------------------------------------------------------------------------------------------
# C17: lock order / progress (Locks.tla; programs = observed critical sections; predicted cycles confirmed by steering)
# ---------------------------------------------------------------------------------------------
def c17_doc(name, dm="rfsm-expression", ticks=30, child_ticks=6, tick_ms=2, want_child=False):
    hdr = '<scxml xmlns="http://www.w3.org/2005/07/scxml" version="1.0" datamodel="%s" name="%s">'
    child = (hdr % (dm, name + "kid")) + '<datamodel><data id="n" expr="0"/></datamodel><state id="c">' \
        '<onentry><send target="#_parent" event="hello"/><send event="ctick" delay="%dms"/></onentry>' % tick_ms + \
        '<transition event="ctick" cond="n &lt; %d"><assign location="n" expr="n + 1"/><send event="ctick" delay="%dms"/>' % (child_ticks, tick_ms) + \
        '<send target="#_parent" event="fromkid"/></transition>' \
        '<transition event="stop" target="f"/></state><final id="f"/></scxml>'
    if want_child:
        return child
    return (hdr % (dm, name)) + '<datamodel><data id="peer" expr="0"/><data id="n" expr="0"/></datamodel>' \
        '<state id="run"><onentry><send event="tick" delay="%dms" id="tk"/>' % tick_ms + \
        "".join('<send event="tock" delay="%dms"%s/>' % (d_, ' id="tk%d"' % d_ if d_ % 3 == 0 else "") for d_ in range(3, 150, 2)) + '</onentry>' \
        '<transition event="init"><assign location="peer" expr="_event.data.peer"/></transition>' \
        '<transition event="tick" cond="n &lt; %d"><assign location="n" expr="n + 1"/><send event="tick" delay="%dms" id="tk"/>' % (ticks, tick_ms) + \
        '<send event="ping" targetexpr="\'#_scxml_\' + peer"/></transition>' \
        '<transition event="more"><assign location="n" expr="0"/><send event="tick" delay="%dms" id="tk"/></transition>' % tick_ms + \
        '<transition event="ping"/><transition event="hello"/><transition event="fromkid"/><transition event="tock"/>' \
        '<transition event="kidstop"><send target="#_kid" event="stop"/></transition>' \
        '<transition event="quit" target="fin"/>' \
        '<state id="idle"><transition event="go" target="busy"/><transition event="go2" target="busy2"/></state>' \
        '<state id="busy"><invoke type="scxml" id="kid"><content>' + child + '</content></invoke>' \
        '<transition event="leave" target="idle"/><transition event="done.invoke.kid" target="idle"/></state>' \
        '<state id="busy2"><invoke type="scxml" id="kid" src="c17kid.scxml"/>' \
        '<transition event="leave" target="idle"/><transition event="done.invoke.kid" target="idle"/></state>' \
        '</state><final id="fin"/></scxml>'


def c17_scenarios(tier, rng):
    """-> list of (name, sessions, steps)"""
    A, B, C = c17_doc("A"), c17_doc("B"), c17_doc("C")
    init = lambda names: [{"send": n, "event": {"name": "init", "params": {"peer": "$sid:" + names[(k + 1) % len(names)]}}} for k, n in enumerate(names)]
    def cyc(n, evs, reps, us):
        out = []
        for _ in range(reps):
            for e in evs:
                out += [{"send": n, "event": e}, {"sleep_us": us}]
        return out
    sc = []
    sc.append(("invoke-with-timers", [("A", A), ("B", B)],
               [{"start": "A"}, {"start": "B"}] + init(["A", "B"]) +
               [{"threads": [cyc("A", ["go", "leave", "go2", "leave"], 3, 1500), cyc("B", ["go", "kidstop", "more", "go2", "kidstop"], 2, 2500)]}, {"settle": 60}]))
    sc.append(("start-while-sending", [("A", A), ("B", B), ("C", C)],
               [{"start": "A"}, {"start": "B"}] + init(["A", "B"]) +
               [{"threads": [cyc("A", ["go", "leave", "more"], 3, 2000), [{"sleep_us": 3000}, {"start": "C"}] + init(["C", "A"])[:1] + cyc("C", ["go", "leave"], 2, 2000)]},
                {"settle": 60}]))
    sc.append(("cancel-while-busy", [("A", A), ("B", B)],
               [{"start": "A"}, {"start": "B"}] + init(["A", "B"]) +
               [{"threads": [cyc("A", ["go", "leave"], 3, 1500), [{"sleep_us": 9000}, {"send": "B", "event": "go"}, {"sleep_us": 2000}] ]},
                {"cancel": "B"}, {"send": "A", "event": "quit"}, {"settle": 60}]))
    sc.append(("shutdown-while-busy", [("A", A), ("B", B)],
               [{"start": "A"}, {"start": "B"}] + init(["A", "B"]) + cyc("A", ["go"], 1, 3000) + cyc("B", ["go"], 1, 4000) +
               [{"shutdown": True}, {"settle": 100}]))
    return sc


def c17_kind(tname):
    if tname.startswith("fsm_"):
        return "session"
    if tname.startswith("Timer"):
        return "timer"
    return "host"


def c17_class(cls):
    for k2, short in (("GlobalData", "G"), ("ExecutorState", "E"), ("EventIOProcessor", "P"), ("datamodel::Data", "D"),
                      ("actions::Action", "A"), ("mpsc::Receiver", "Q"), ("TracerFactory", "TF"), ("DatamodelFactory", "DF")):
        if k2 in cls:
            return short
    return cls[-20:]


C17_CLASSNAME = {"G": "GlobalData", "E": "ExecutorState", "P": "EventIOProcessor", "D": "datamodel::Data", "A": "actions::Action",
                 "Q": "mpsc::Receiver", "TF": "TracerFactory", "DF": "DatamodelFactory"}


def c17_reduce(L):
    """recorded segments -> thread programs for Locks.tla (leaf locks removed, locks renumbered)"""
    segs = L["segments"]
    # a lock is a holder-side lock if something is requested while it is held
    nonleaf = set()
    for t, ss in segs.items():
        for sg in ss:
            held = []
            for op, l in sg:
                if op in ("a", "t"):
                    if op == "a":
                        nonleaf.update(held)
                    held.append(l)
                else:
                    if l in held:
                        held.remove(l)
    # a lock used by one thread only cannot be part of a cycle (data values, the session's queue receiver, ...)
    users = {}
    for t, ss in segs.items():
        for sg in ss:
            for op, l in sg:
                users.setdefault(l, set()).add(t)
    shared = {l for l, u in users.items() if len(u) >= 2}
    nonleaf &= shared
    # locks that matter: non-leaf ones and those requested (blocking) while a non-leaf is held
    threads = []
    ids = {}
    for t in sorted(segs):
        out = set()
        for sg in segs[t]:
            held = []
            keep = []
            for op, l in sg:
                if op in ("a", "t"):
                    if l in shared and (l in nonleaf or (op == "a" and any(h in nonleaf for h in held))):
                        keep.append((op, l))
                    held.append(l)
                else:
                    if l in held:
                        held.remove(l)
                    if any(k2[1] == l for k2 in keep if k2[0] != "u"):
                        keep.append((op, l))
            # drop releases of locks whose acquisition was dropped, and trivial programs
            acq = [k2 for k2 in keep if k2[0] != "u"]
            if len(acq) >= 2:
                out.add(tuple(keep))
        if out:
            prog = []
            for sg in sorted(out):
                prog.append([[op, ids.setdefault(l, len(ids) + 1)] for op, l in sg])
            threads.append({"name": t, "segs": prog})
    return threads, {v: k2 for k2, v in ids.items()}


@check("C17")
def c17(tier, seed):
    t0 = time.time()
    wd = vlib.workdir("C17")
    V = vlib.Verdicts("C17")
    vlib.build_harness()
    rng = random.Random(seed)
    scs = c17_scenarios(tier, rng)
    reps = 2 if tier == "quick" else 8

    def job_for(k, points=None):
        name, sessions, steps = scs[k]
        j = {"id": 1, "sessions": [{"name": n, "xml": x} for n, x in sessions], "steps": steps, "timeout_ms": 8000, "locks": True,
             "files": {"c17kid.scxml": c17_doc("F", want_child=True)}}
        if points:
            j["points"] = points
        return j

    def waitfor_cycle(L):
        w = {x["thread"]: x for x in L.get("waiting", [])}
        holder = {}
        for t, x in w.items():
            for l in x["held"]:
                holder[l] = t
        for t in w:
            seen = [t]
            cur = t
            while True:
                nxt = holder.get(w[cur]["wants"])
                if nxt is None or nxt not in w:
                    break
                if nxt in seen:
                    cyc = seen[seen.index(nxt):]
                    return [(c17_kind(c), sorted({c17_class(L["classes"][str(l)]) for l in w[c]["held"]}),
                             c17_class(L["classes"][str(w[c]["wants"])])) for c in cyc]
                seen.append(nxt)
                cur = nxt
        return None

    def sig(cyc):
        parts = sorted("%s[%s>%s]" % (k2, "+".join(h), wnt) for (k2, h, wnt) in cyc)
        return " | ".join(parts)

    # ---- (1) record the critical sections of every scenario
    recorded = []
    nruns = 0
    for k in range(len(scs)):
        for rep in range(reps):
            res = run_scen_jobs([job_for(k)], wd, name="rec%d_%d" % (k, rep), threads=1, timeout=120)
            r = res[1]
            nruns += 1
            if r.get("errors"):
                raise ToolError("C17 scenario %s: %s" % (scs[k][0], r["errors"]))
            L = r["locks"]
            if r.get("stalls"):
                cyc = waitfor_cycle(L)
                V.report("deadlock:" + (sig(cyc) if cyc else "stall-without-lock-cycle:" + scs[k][0]),
                         "scenario %s stalled%s" % (scs[k][0], " in a lock cycle" if cyc else ""),
                         {"scenario": scs[k][0], "waiting": L.get("waiting"), "cycle": cyc})
                continue
            if r.get("panics") or r.get("other_panics"):
                V.report("panic:" + scs[k][0], "panic in scenario %s" % scs[k][0], {"panics": r.get("panics"), "other": r.get("other_panics")})
            threads, idmap = c17_reduce(L)
            recorded.append({"k": k, "threads": threads, "idmap": idmap, "classes": L["classes"], "overflow": L["overflow"]})
    if not recorded and not V.violations:
        raise ToolError("C17: nothing recorded")
    # ---- (2) TLC: all interleavings of every K threads running their observed critical sections
    cands = {}
    tv = {"distinct": 0, "states": 0}
    if recorded:
        with open(os.path.join(wd, "traces.ndjson"), "w") as f:
            for rc_ in recorded:
                f.write(json.dumps({"threads": rc_["threads"]}) + "\n")
        tv = vlib.run_tlc("Locks", "Locks.cfg", wd, env={"TRACES": "traces.ndjson"}, timeout=int(os.environ.get("C17_TLC_TIMEOUT", "900")), workers=8,
                          consts={"K": "2" if tier == "quick" else "3"})
        for t in vlib.tlc_tuples(tv["text"], "CYCLE"):
            v = vlib.parse_tla_value(t)
            rc_ = recorded[v[1] - 1]
            members = v[2] if isinstance(v[2], list) else list(v[2].values())
            info = []
            for m in members:
                tname, seg, pcx, want, held = m[0], m[1], m[2], m[3], m[4]
                cl = lambda l: c17_class(rc_["classes"][str(rc_["idmap"][l])])
                info.append({"thread": tname, "kind": c17_kind(tname), "wants": want, "wants_class": cl(want),
                             "held": sorted(held), "held_classes": sorted({cl(h) for h in held})})
            key = sig([(x["kind"], x["held_classes"], x["wants_class"]) for x in info])
            cands.setdefault(key, {"k": rc_["k"], "members": info, "count": 0})
            cands[key]["count"] += 1
        tv["text"] = ""
    # ---- (3) confirm every predicted cycle in the implementation (steer the real threads to the same points)
    confirmed, unconfirmed = [], []
    for key, c in sorted(cands.items()):
        mem = c["members"]
        # cycle order: what member j wants is held by member j+1
        order = [mem[0]]
        while len(order) < len(mem):
            nxt = [m for m in mem if order[-1]["wants"] in m["held"] and m not in order]
            if not nxt:
                break
            order.append(nxt[0])
        if len(order) != len(mem):
            order = mem
        points = []
        for j, m in enumerate(order):
            prev = order[j - 1]
            points.append({"thread": {"session": "fsm_", "timer": "Timer", "host": ""}[m["kind"]],
                           "holds": C17_CLASSNAME.get(prev["wants_class"], prev["wants_class"]),
                           "wants": C17_CLASSNAME.get(m["wants_class"], m["wants_class"])})
        hit = None
        tries = 4 if tier == "quick" else 10
        for a in range(tries):
            res = run_scen_jobs([job_for(c["k"], points)], wd, name="conf%d" % a, threads=1, timeout=120)
            r = res[1]
            nruns += 1
            if r.get("stalls"):
                cyc = waitfor_cycle(r["locks"])
                if cyc:
                    hit = (cyc, r["locks"].get("waiting"), r["locks"].get("rendezvous"))
                    break
        if hit:
            confirmed.append(key)
            V.report("deadlock:" + sig(hit[0]), "predicted by Locks.tla and reproduced in scenario %s: %s" % (scs[c["k"]][0], sig(hit[0])),
                     {"scenario": scs[c["k"]][0], "predicted": c["members"], "points": points, "waiting": hit[1], "rendezvous": hit[2]})
        else:
            unconfirmed.append(key)
    rc = V.finish()
    cov = {"states": tv["distinct"], "transitions": tv["states"], "traces_validated_against_impl": len(recorded),
           "samples": [{"scenario": scs[recorded[0]["k"]][0], "threads": [{"name": t["name"], "segments": len(t["segs"])} for t in recorded[0]["threads"]]}] if recorded else [],
           "evaluations": nruns, "distinct_nontrivial": sum(len(t["segs"]) for rc_ in recorded for t in rc_["threads"]),
           "rule": "%d recorded runs of %d scenarios (invoke with timers, start while sending, cancel, shutdown): the distinct critical "
                   "sections of every thread (after removal of leaf locks) are the thread programs of Locks.tla; TLC explored every "
                   "interleaving of every %s threads per run and predicted %d distinct wait-for cycles; %d were reproduced in the "
                   "implementation by steering the real threads to the predicted program points (each reproduction is a deadlock), "
                   "%d could not be reproduced: %s"
                   % (len(recorded), len(scs), "2" if tier == "quick" else "3", len(cands), len(confirmed), len(unconfirmed),
                      "; ".join(unconfirmed)[:600])}
    vlib.write_evidence("C17", tier, seed, "model_checking", cov, time.time() - t0, len(V.violations),
                        ["a predicted cycle that cannot be reproduced is not reported (the model ignores happens-before between segments)",
                         "only lock nestings that occurred in a recorded run are in the model"])
    return rc


# ---------------------------------------------------------------------------------------------
# C10 / C11: Expr.tla as generator + oracle, the engine evaluated in `vh expr`
# ---------------------------------------------------------------------------------------------
OPERANDS = ["0", "1", "2", "3", "7", "10", "-1", "-4", "2.5", "0.5", "1.0", "-1.5", "'a'", "'b'", "'ab'", "''", "true",
            "false", "null", "[1,2]", "[]", "['a']", "{'a':1}", "{'b':2}", "{'a':3}", "9223372036854775807",
            "-9223372036854775808", "nosuchvar", "{'a':5,'b':2}"]
ALL_OPS = ["*", "/", ":", "%", "+", "-", "<", "<=", ">", ">=", "==", "!=", "&", "|"]


def expr_family(wd, name, k, operands, ops, notset=(0,), timeout=900):
    idx = sorted(OPERANDS.index(o) + 1 for o in operands)
    cfg = "SPECIFICATION Spec\nCONSTANT K = %d\nCONSTANT OperandIdx = {%s}\nCONSTANT OpSet = {%s}\n" \
          "CONSTANT NotSet = {%s}\nINVARIANT Emit\nCHECK_DEADLOCK FALSE\n" % (
              k, ",".join(map(str, idx)), ",".join('"%s"' % o for o in ops), ",".join(map(str, notset)))
    open(os.path.join(vlib.SPEC, "Expr.%s.cfg" % name), "w").write(cfg)
    try:
        res = vlib.run_tlc("Expr", "Expr.%s.cfg" % name, wd, timeout=timeout)
    finally:
        os.remove(os.path.join(vlib.SPEC, "Expr.%s.cfg" % name))
    out = []
    for t in vlib.tlc_tuples(res["text"], "EXPR"):
        v = vlib.parse_tla_value(t)
        out.append((v[1], v[2]))
    res["text"] = ""
    return res, out


def enc_parse(s):
    """parses the compact value encoding into a comparable Python value"""
    pos = [0]

    def val():
        c = s[pos[0]]
        if c == "[":
            pos[0] += 1
            out = []
            while s[pos[0]] != "]":
                out.append(val())
                if s[pos[0]] == ",":
                    pos[0] += 1
            pos[0] += 1
            return ("arr", out)
        if c == "{":
            pos[0] += 1
            out = []
            while s[pos[0]] != "}":
                j = s.index(":", pos[0])
                k = s[pos[0]:j]
                pos[0] = j + 1
                out.append((k, val()))
                if s[pos[0]] == ",":
                    pos[0] += 1
            pos[0] += 1
            return ("map", sorted(out))
        if c == "s":
            j = pos[0] + 2
            k = j
            # strings of the alphabet contain no quote
            while s[k] != "'":
                k += 1
            pos[0] = k + 1
            return ("str", s[j:k])
        j = pos[0] + 1
        while j < len(s) and s[j] not in ",]}":
            j += 1
        tok = s[pos[0]:j]
        pos[0] = j
        if tok[0] == "i":
            return ("int", int(tok[1:]))
        if tok[0] == "d":
            if "/" in tok:
                a, b = tok[1:].split("/")
                return ("dbl", int(a) / int(b))
            return ("dbl", float(tok[1:]))
        if tok[0] == "b":
            return ("bool", tok[1:] == "1")
        return (tok, None)

    return val()


def enc_equal(a, b):
    if a[0] != b[0]:
        return False
    if a[0] == "dbl":
        x, y = a[1], b[1]
        return x == y or abs(x - y) <= 1e-12 * max(abs(x), abs(y), 1e-300)
    if a[0] == "arr":
        return len(a[1]) == len(b[1]) and all(enc_equal(x, y) for x, y in zip(a[1], b[1]))
    if a[0] == "map":
        return len(a[1]) == len(b[1]) and all(k1 == k2 and enc_equal(x, y) for (k1, x), (k2, y) in zip(a[1], b[1]))
    return a[1] == b[1]


def run_expr_jobs(jobs, wd, name="expr", timeout=1800, chunk=20000):
    """runs `vh expr` on the jobs in sacrificial processes; a process that dies is bisected"""
    import subprocess
    results = {}
    died = []

    def run(batch, depth=0):
        jf = os.path.join(wd, "%s.%d.ndjson" % (name, len(results) + len(died) + depth))
        of = jf + ".out"
        with open(jf, "w") as f:
            for j in batch:
                f.write(json.dumps(j) + "\n")
        def limit():
            import resource
            resource.setrlimit(resource.RLIMIT_AS, (12 << 30, 12 << 30))
        p = subprocess.run(["timeout", str(timeout), vlib.VH, "expr", jf, of], stdout=subprocess.PIPE,
                           stderr=subprocess.STDOUT, text=True, preexec_fn=limit)
        got = {}
        if os.path.exists(of):
            for line in open(of):
                try:
                    r = json.loads(line)
                    got[r["id"]] = r
                except Exception:
                    pass
        results.update(got)
        if p.returncode != 0:
            rest = [j for j in batch if j["id"] not in got]
            if rest and p.returncode == 3:
                run(rest, depth + 1)       # the worker ended itself after reporting a hang
            elif rest:
                # the first unanswered job killed the process
                died.append((rest[0], p.returncode, p.stdout[-300:]))
                if len(rest) > 1:
                    run(rest[1:], depth + 1)
        os.remove(jf)
        if os.path.exists(of):
            os.remove(of)

    for i in range(0, len(jobs), chunk):
        run(jobs[i:i + chunk])
    return results, died


def variants(text, rng):
    toks = text.split(" ")
    out = {"canon": text}
    out["wide"] = "  ".join(toks).replace("  +  ", " \n+\t ")
    out["tight"] = "".join(toks)
    wrapped = []
    for t in toks:
        if t in ALL_OPS or t in ("(", ")", "!"):
            wrapped.append(t)
        else:
            wrapped.append("(" + t + ")")
    out["parens"] = " ".join(wrapped)
    return out


@check("C10")
def c10(tier, seed):
    t0 = time.time()
    rng = random.Random(seed)
    wd = vlib.workdir("C10")
    V = vlib.Verdicts("C10")
    vlib.build_harness()
    fams = [("k1", 1, OPERANDS, ALL_OPS, (0, 1, 2))]
    if tier == "quick":
        fams.append(("k2num", 2, ["1", "2", "3", "7", "10", "-4", "2.5"], ["*", "/", "%", "+", "-", "<", "==", ":"], (0,)))
        fams.append(("k2mix", 2, ["1", "2.5", "'a'", "'ab'", "true", "[1,2]", "{'a':1}", "{'a':3}", "{'a':5,'b':2}"], ["+", "==", "!=", "<", "&", "|", "*"], (0, 1)))
        var_frac = 0.15
    else:
        fams.append(("k2num", 2, ["0", "1", "2", "3", "7", "10", "-1", "-4", "2.5", "0.5", "-1.5"], ALL_OPS, (0,)))
        fams.append(("k2mix", 2, ["1", "2.5", "'a'", "'ab'", "''", "true", "false", "null", "[1,2]", "[]", "{'a':1}", "{'b':2}", "{'a':3}", "{'a':5,'b':2}", "nosuchvar"],
                     ["+", "-", "==", "!=", "<", ">=", "&", "|", "*"], (0, 1, 2, 3)))
        fams.append(("k3", 3, ["2", "3", "7", "10", "2.5"], ["*", "/", "%", "+", "-", "<", "=="], (0,)))
        fams.append(("k2big", 2, ["9223372036854775807", "-9223372036854775808", "1", "2", "0", "-1"], ["+", "-", "*", "<", "=="], (0,)))
        var_frac = 1.0
    states = trans = 0
    exprs = []
    for (name, k, operands, ops, notset) in fams:
        res, out = expr_family(wd, name, k, operands, ops, notset)
        states += res["distinct"]
        trans += res["states"]
        log("[C10] Expr family %s: %d expressions (%.1fs)" % (name, len(out), res["wall"]))
        exprs += [(name, t, e) for (t, e) in out]
    judged = [(f, t, e) for (f, t, e) in exprs if e != "U"]
    # the engine evaluates about 4 000 texts per second (four paths each): the thorough tier takes a random sample of the
    # enumerated expressions of the large families that keeps the run below about twenty minutes
    cap = 250000
    if tier != "quick" and len(judged) > cap:
        small = [x for x in judged if x[0] in ("k1", "k2big")]
        big = [x for x in judged if x[0] not in ("k1", "k2big")]
        judged = small + rng.sample(big, max(0, cap - len(small)))
        var_frac = 0.5
    jobs = []
    meta = {}
    for (f, t, e) in judged:
        vs = variants(t, rng) if rng.random() < var_frac else {"canon": t}
        for vn, vt in vs.items():
            jid = len(jobs) + 1
            jobs.append({"id": jid, "text": vt})
            meta[jid] = (f, t, e, vn)
    results, died = run_expr_jobs(jobs, wd)
    log("[C10] evaluated %d texts of %d judged expressions (%d undefined by the documentation skipped)" % (
        len(jobs), len(judged), len(exprs) - len(judged)))
    ok = 0
    nontrivial = set()
    for jid, (f, t, e, vn) in meta.items():
        r = results.get(jid)
        toks = t.split(" ")
        ops = [x for x in toks if x in ALL_OPS]
        if r is None or r.get("panic") or r.get("hang"):
            # termination/panics are C11's business; here the value simply was not obtained
            V.report("novalue:%s" % ("panic" if r and r.get("panic") else "hang" if r else "died"),
                     "no value for %r (%s)" % (t, vn), {"text": t, "variant": vn, "result": r})
            continue
        exp = enc_parse(e)
        bad = None
        for path in ("a", "b1", "b2", "d"):
            got = r.get(path, r["b1"])
            if path != "a" and exp[0] in ("arr", "map"):
                continue       # the datamodel refuses to return collections; only the parser path is compared
            try:
                g = enc_parse(got)
            except Exception:
                g = ("?", got)
            if not enc_equal(exp, g):
                bad = (path, got)
                break
        if bad is None:
            ok += 1
            if len(ops) >= 2:
                nontrivial.add(t)
            continue
        glued = any(a == "-" and b[:1] in "0123456789." for a, b in zip(toks, toks[1:])) and \
            any(toks[i] == "-" and i > 0 and toks[i - 1] not in ALL_OPS + ["(", "!"] for i in range(len(toks)))
        if vn == "tight" and glued:
            key = "lexer:binary-minus-glued-to-number"
        elif vn != "canon":
            key = "variant:%s" % vn
        elif "(" not in toks and len(ops) >= 2 and len({_prio(o) for o in ops}) == 1:
            key = "grouping:equal-precedence"
        elif len(ops) >= 2 and "(" not in toks:
            key = "precedence"
        elif bad[0] != "a":
            key = "path:%s" % bad[0]
        else:
            key = "value:%s" % ",".join(sorted(set(ops)))
        V.report(key, "expression %r (%s): expected %s, engine path %s gave %s" % (t, vn, e, bad[0], bad[1]),
                 {"text": t, "variant": vn, "expected": e, "path": bad[0], "got": bad[1], "all": r})
    if ok == 0:
        raise ToolError("C10: nothing agreed")
    # ---- store family: variables, member / index access, '=' and '?=' (Store.tla)
    sres = vlib.run_tlc("Store", "Store.cfg", wd, timeout=900, workers=4)
    states += sres["distinct"]
    trans += sres["states"]
    progs = []
    for tup in vlib.tlc_tuples(sres["text"], "PROG"):
        v = vlib.parse_tla_value(tup)
        progs.append((v[1], v[2]))
    sres["text"] = ""
    if tier == "quick":
        progs = [p_ for k_, p_ in enumerate(sorted(progs)) if k_ % 3 == seed % 3 or " ; " not in p_[0]]
    sjobs = [{"id": k_ + 1, "text": p_[0], "store": True} for k_, p_ in enumerate(progs)]
    sresults, sdied = run_expr_jobs(sjobs, wd, name="store")
    VARS = ["arr", "m", "n", "ro", "s", "t", "u"]
    store_ok = 0
    store_judged = 0
    for k_, (text, outcomes) in enumerate(progs):
        r = sresults.get(k_ + 1)
        if r is None or r.get("panic") or r.get("hang"):
            V.report("novalue:store", "no value for %r" % text, {"text": text, "result": r})
            continue
        dump = [r["store"].get(vn, "-") for vn in VARS]
        extra = sorted(set(r["store"]) - set(VARS))
        fits = False
        for (res_e, st_e) in outcomes:
            try:
                res_okay = res_e == "U" or enc_equal(enc_parse(res_e), enc_parse(r["a"]))
                st_okay = all((e_ == "-" and g_ == "-") or (e_ != "-" and g_ != "-" and enc_equal(enc_parse(e_), enc_parse(g_)))
                              for e_, g_ in zip(st_e, dump))
            except Exception:
                res_okay = st_okay = False
            if res_okay and st_okay:
                fits = True
                break
        if all(o[0] == "U" for o in outcomes) and len(outcomes) > 1:
            pass
        store_judged += 1
        # (the datamodel refuses to return collections; for those only the parser path is compared)
        cache_ok = r.get("b3") == r["b1"] and r.get("store_b3") == r["store"]
        if fits and not extra and (r["a"] == r["b1"] or r["a"][:1] in "[{") and cache_ok:
            store_ok += 1
            continue
        what = "extra-variable" if extra else "store" if not fits else "path:b1" if r["a"] != r["b1"] and r["a"][:1] not in "[{" else "cache"
        first = text.split(" ; ")[0]
        kind = "init" if "?=" in first else "assign" if " = " in first else "read"
        V.report("store:%s:%s" % (what, kind), "program %r: engine gave %s with store %s; allowed: %s" % (text, r["a"], dict(zip(VARS, dump)), outcomes[:3]),
                 {"text": text, "result": r["a"], "b1": r["b1"], "store": r["store"], "allowed": outcomes})
    log("[C10] store family: %d programs, %d comply" % (store_judged, store_ok))
    if store_ok == 0:
        raise ToolError("C10: no store program complied")
    ok += store_ok
    rc = V.finish()
    cov = {"states": states, "transitions": trans, "traces_validated_against_impl": ok,
           "store_programs": store_judged,
           "samples": [{"text": t, "expected": e} for (f, t, e) in judged[:: max(1, len(judged) // 5)][:5]],
           "evaluations": len(jobs) + len(sjobs), "distinct_nontrivial": len(nontrivial),
           "rule": "Store.tla enumerates programs (statement [; statement] [; read]) over a fixed store with member / index reads, "
                   "'=' and '?=' on declared, undeclared, read-only variables, members and elements and gives the set of allowed "
                   "(result, store) outcomes; the engine's result and store dump must be one of them, identical for a fresh compile. "
                   "TLC enumerates every expression operand (op operand)^K with one optional parenthesised sub-range and "
                   "optional '!' over the operand/operator sets of each family and computes the value with Expr.tla; the "
                   "engine evaluates the text (parser directly, datamodel compile, datamodel cache hit; whitespace and "
                   "redundant-parenthesis variants); non-trivial = distinct agreeing expressions with >= 2 operators",
           "families": [{"name": n, "K": k, "operands": o, "ops": p} for (n, k, o, p, _) in fams],
           "undefined_skipped": len(exprs) - len(judged), "died": len(died), "exhaustive": True}
    vlib.write_evidence("C10", tier, seed, "model_checking", cov, time.time() - t0, len(V.violations),
                        ["Expr.tla is the documented semantics (README operator table, parser precedence table, property "
                         "statement); cases it leaves undefined are not judged", "Doubles are compared to the exact rational "
                         "within 1e-12 relative"])
    return rc


FUZZ_FULL = ["1", "0", "-1", "2.5", "-9223372036854775808", "n", "arr", "m", "ro", "zz", "'s'", "true", "null",
             "+", "-", "*", "/", "%", "==", "<", "=", "?=", "!", "&", "|", "(", ")", "[", "]", "{", "}", ".", ",", ":",
             ";", "'open", "\u00e9t\u00e9", "'\\u00e9'", "abs", "length", "In", "\\", "1e", "1e999", "@"]
FUZZ_SMALL = ["1", "0", "n", "arr", "m", "zz", "-9223372036854775808", "%", "/", "-", "=", "?=", "(", ")", "[", "]",
              ".", ",", "abs", "!"]


def fuzz_family(wd, name, L, alphabet, timeout=900):
    open(os.path.join(wd, "alpha.json"), "w").write(json.dumps(alphabet))
    cfg = "SPECIFICATION Spec\nCONSTANT L = %d\nINVARIANT Emit\nCHECK_DEADLOCK FALSE\n" % L
    open(os.path.join(vlib.SPEC, "ExprFuzz.%s.cfg" % name), "w").write(cfg)
    try:
        res = vlib.run_tlc("ExprFuzz", "ExprFuzz.%s.cfg" % name, wd, env={"ALPHA": "alpha.json"}, timeout=timeout)
    finally:
        os.remove(os.path.join(vlib.SPEC, "ExprFuzz.%s.cfg" % name))
    out = []
    for t in vlib.tlc_tuples(res["text"], "FUZZ"):
        out.append(vlib.parse_tla_value(t)[1])
    res["text"] = ""
    return res, out


def structured_inputs(tier):
    """-> list of (label, text); label names the family and the repetition count"""
    ns = [10, 100, 1000, 10000] + ([100000] if tier != "quick" else [])
    out = []
    for n in ns:
        fam = [("nest-paren", "(" * n + "1" + ")" * n), ("nest-bracket", "[" * n + "1" + "]" * n),
               ("nest-brace", "{'a':" * n + "1" + "}" * n), ("chain-not", "!" * n + "true"),
               ("chain-plus", "+".join(["1"] * n)), ("chain-minus", " - ".join(["1"] * n)),
               ("chain-mulmod", "1" + " * 2 % 3" * (n // 2)), ("chain-index", "arr" + "[0]" * n),
               ("chain-member", "m" + ".c" * n), ("chain-sequence", ";".join(["n = n + 1"] * n)),
               ("nest-call", "abs(" * n + "1" + ")" * n), ("open-parens", "(" * n), ("close-parens", ")" * n),
               ("long-string", "'" + "a" * n + "'"), ("chain-neg", "-" * n + "1"), ("long-number", "1" + "0" * n),
               ("chain-init", "n" + " ?= n" * n), ("long-array", "[" + ",".join(["1"] * n) + "]")]
        out += [("%s:%d" % (k, n), t) for k, t in fam]
    singles = ["n = n", "n ?= n", "arr[arr]", "arr = arr", "m.b = m", "m = m.c", "arr[0] = arr", "m[m]", "arr + arr",
               "abs(-9223372036854775807 - 1)", "abs(-9223372036854775808)", "5 % 0", "7 % 4 % 2", "-9223372036854775808 % -1",
               "-9223372036854775808 / -1", "-9223372036854775808 * -1", "0 - -9223372036854775808", "1 / 0", "0 / 0", "0.0 % 0",
               "length(n)", "indexOf('a')", "toString(toString)", "m.c[5]", "arr[-1]", "arr[1e30]", "arr[0.5]", "{1:2}[1]",
               "ro = 1", "ro ?= 1", "In('x')", "'\\u12'", "'\\ud800'", "\u00e9 ?= 1; \u00e9 + 1", "1 =", "1 <", "n !", "1 ?",
               "1 >", "n ?=", "arr[0] = arr; arr == arr", "arr[0] = arr; toString(arr)", "m.b = m; m == m",
               # an operand that is an element / member of the other operand
               "a ?= [[1]]; a == a[0]", "a ?= [[1]]; a[0] == a", "a ?= [[1]]; a != a[0]", "a ?= [[1]]; a + a[0]", "a ?= [[1]]; a[0] + a",
               "a ?= [[1]]; a < a[0]", "a ?= [[1], 2]; a[0] == a[1]", "a ?= {'k': {'j': 1}}; a == a.k", "a ?= {'k': {'j': 1}}; a.k == a",
               "a ?= {'k': {'j': 1}}; a + a.k", "a ?= {'k': {'j': 1}}; a.k + a", "a ?= {'k': [1]}; a.k == a", "a ?= [[[1]]]; a[0] == a[0][0]",
               "a ?= [[1]]; a[0] & a", "a ?= [[1]]; a | a[0]", "a ?= [[1]]; a >= a[0]"]
    out += [("single", t) for t in singles]
    return out


@check("C11")
def c11(tier, seed):
    t0 = time.time()
    rng = random.Random(seed)
    wd = vlib.workdir("C11")
    V = vlib.Verdicts("C11")
    vlib.build_harness()
    fams = [("full", 2 if tier == "quick" else 3, FUZZ_FULL), ("small", 3 if tier == "quick" else 4, FUZZ_SMALL)]
    states = trans = 0
    texts = []
    for name, L, alpha in fams:
        res, out = fuzz_family(wd, name, L, alpha)
        states += res["distinct"]
        trans += res["states"]
        log("[C11] token sequences %s L=%d: %d texts (%.1fs)" % (name, L, len(out), res["wall"]))
        texts += out
    n_enum = len(texts)
    labels = {}
    for lab, t in structured_inputs(tier):
        labels[t] = lab
        texts.append(t)
    # mutated texts derived from the model sequences: drop spaces, duplicate a token, random unicode insertion
    base = rng.sample(texts[:n_enum], min(n_enum, 3000 if tier == "quick" else 60000))
    for t in base:
        toks = t.split(" ")
        r = rng.random()
        if r < 0.4:
            texts.append("".join(toks))
        elif r < 0.7:
            i = rng.randrange(len(toks))
            texts.append(" ".join(toks[:i] + [toks[i]] * rng.randint(2, 30) + toks[i + 1:]))
        else:
            i = rng.randrange(len(t) + 1)
            texts.append(t[:i] + chr(rng.choice([0x0, 0x7f, 0xe9, 0x3b1, 0x65e5, 0x1f600, 0x202e, 0xfeff])) + t[i:])
    texts = list(dict.fromkeys(texts))
    # "hang" means no answer within the time limit; long structured inputs get a generous one (a default build prints the
    # parser stack at every reduction: quadratic in the length of a chain, slow but terminating)
    jobs = [{"id": i + 1, "text": t, "store": True, "timeout_ms": 1500 if len(t) < 400 else 240000} for i, t in enumerate(texts)]
    results, died = run_expr_jobs(jobs, wd, name="fuzz", chunk=5000)
    # no verdict from load: an input that did not answer within the short limit is evaluated again on its own with a limit
    # of 40 s (at most 6 such inputs; an evaluation that blocks on a lock does not come back then either)
    slow = [j for j in jobs if (results.get(j["id"]) or {}).get("hang") and j["timeout_ms"] < 40000][:6]
    for j in slow:
        r2, d2 = run_expr_jobs([dict(j, timeout_ms=40000)], wd, name="fuzzagain%d" % j["id"], chunk=5000)
        if r2.get(j["id"]) is not None and not r2[j["id"]].get("hang"):
            log("[C11] %r answered within 40 s on its own (no hang)" % j["text"][:60])
            results[j["id"]] = r2[j["id"]]
    died_ids = {j["id"]: (rc, msg) for (j, rc, msg) in died}
    recs = []
    for j in jobs:
        r = results.get(j["id"])
        if r is None:
            outcome, probe = ("died", False) if j["id"] in died_ids else ("missing", False)
        elif r.get("hang"):
            outcome, probe = "hang", False
        elif r.get("panic") is not None:
            outcome, probe = "panic", False
        else:
            outcome = "error" if r["a"] == "E" and r["b1"] == "E" else "value"
            probe = bool(r.get("probe"))
        recs.append({"id": j["id"], "outcome": outcome, "probe": probe})
    if any(r["outcome"] == "missing" for r in recs):
        raise ToolError("C11: results missing without a dead worker")
    with open(os.path.join(wd, "traces.ndjson"), "w") as f:
        for r in recs:
            f.write(json.dumps(r) + "\n")
    tv = vlib.run_tlc("TraceC11", "TraceC11.cfg", wd, env={"TRACES": "traces.ndjson"}, timeout=900)
    rejected = {}
    for t in vlib.tlc_tuples(tv["text"], "REJECT"):
        v = vlib.parse_tla_value(t)
        rejected[v[1]] = (v[2], v[3])
    tv["text"] = ""
    for jid, (outcome, probe) in sorted(rejected.items()):
        text = texts[jid - 1]
        r = results.get(jid) or {}
        msg = (r.get("panic") or "")
        lab = labels.get(text, "")
        key = "%s:%s" % (outcome if outcome in ("panic", "hang", "died") else "poisoned",
                         lab if lab and lab != "single" else c11_class(text, msg))
        V.report(key, "%s on %r %s" % (outcome, text[:120], msg[:200]), {"text": text if len(text) < 5000 else text[:200] + "...(%d chars)" % len(text),
                                                                       "outcome": outcome, "probe": probe, "detail": r})
    ok = len(recs) - len(rejected)
    rc = V.finish()
    cov = {"states": states + tv["distinct"], "transitions": trans + tv["states"], "traces_validated_against_impl": ok,
           "samples": [{"text": texts[i][:80], "outcome": recs[i]["outcome"]} for i in range(0, len(texts), max(1, len(texts) // 6))][:6],
           "evaluations": len(texts), "distinct_nontrivial": sum(1 for r in recs if r["outcome"] == "value"),
           "rule": "all token sequences up to length L over the adversarial alphabets (enumerated by TLC from ExprFuzz.tla) "
                   "plus structured long inputs (n-fold nesting/chains, n up to 10^4 quick / 10^5 thorough) plus seeded mutations "
                   "(glued tokens, repeated tokens, inserted Unicode); each evaluated in a 2 MB-stack thread of a sacrificial "
                   "process under a watchdog, followed by a probe evaluation on the same store; outcomes validated by "
                   "TraceC11.tla; non-trivial = texts that evaluate to a value",
           "enumerated": n_enum, "died": len(died), "exhaustive": False}
    vlib.write_evidence("C11", tier, seed, "model_checking", cov, time.time() - t0, len(V.violations),
                        ["arbitrary byte strings outside the token/structured/mutated families are not covered"])
    return rc


def c11_class(text, msg):
    import re as _re
    if "remainder" in msg or "divisor of zero" in msg:
        return "modulus-by-zero"
    if "overflow" in msg:
        return "integer-overflow:" + ("abs" if "abs" in text else "%" if "%" in text else "arith")
    if len(text) > 2000:
        return "long-input:" + _re.sub(r"[A-Za-z0-9' ]", "", text[:6])[:3]
    if _re.search(r"(\b\w+\b)(\[\w*\])?\s*\??=\s*\1\b", text):
        return "self-assignment"
    if _re.search(r"(\b\w+\b)\s*\[\s*\1\s*\]", text):
        return "self-index"
    return "other:" + (msg.split("@")[-1].strip() if msg else text[:30])


def _prio(op):
    return 5 if op in ("&", "*", "/", ":", "%") else 6 if op in ("|", "+", "-") else 9 if op in ("<", "<=", ">", ">=") else 10


# ---------------------------------------------------------------------------------------------
def main():
    ap = argparse.ArgumentParser()
    ap.add_argument("what")
    ap.add_argument("--tier", default=os.environ.get("VERIF_TIER", "quick"))
    ap.add_argument("--replay")
    a = ap.parse_args()
    seed = int(os.environ.get("VERIF_SEED", "1") or 1)
    if a.what == "setup":
        try:
            vlib.build_harness()
        except ToolError as e:
            log(str(e))
            return 2
        return 0
    f = CHECKS.get(a.what)
    if f is None:
        log("unknown check", a.what)
        return 2
    try:
        rc = f(a.tier, seed)
        if not os.environ.get("VERIF_KEEP"):
            import shutil
            shutil.rmtree(os.path.join(vlib.WORK, "%s-%d" % (a.what, os.getpid())), ignore_errors=True)
        return rc
    except ToolError as e:
        log("TOOL ERROR: %s" % e)
        return 2
    except Exception:
        traceback.print_exc()
        return 2


if __name__ == "__main__":
    sys.exit(main())
