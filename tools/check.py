#!/usr/bin/env python3
"""Driver of all checks:  tools/check.py <Cxx> [--tier quick|thorough] | setup | selftest

exit 0: property held on everything explored (KNOWN-FINDING lines allowed)
exit 1: a line `VIOLATION property=<id> replay=<path>` was printed
exit 2: tool error / timeout (never together with a VIOLATION line)
"""
import argparse
import json
import os
import random
import sys
import time
import traceback

sys.path.insert(0, os.path.dirname(os.path.abspath(__file__)))
import docgen          # noqa: E402
import tracelib        # noqa: E402
import vlib            # noqa: E402
from vlib import ToolError, log  # noqa: E402

CHECKS = {}


def check(name):
    def deco(f):
        CHECKS[name] = f
        return f
    return deco


# ---------------------------------------------------------------------------------------------
# core pipeline: documents -> TLC(Session) -> REPLAY stimuli -> real sessions -> TLC(trace spec)
# ---------------------------------------------------------------------------------------------
CLASS_OWNER = {
    "enabled": "sel", "order": "sel",
    "rtc-eventless-first": "rtc", "rtc-iq-empty": "rtc", "rtc-fifo": "rtc", "rtc-idle-with-iq": "rtc",
    "xorder": "rtc", "noop": "rtc",
    "ienq": "done", "exit": "done", "final": "done", "afterfinal": "done",
    "shape": "other", "trunc": "other",
}


def explore_docs(docs, wd, max_ev, max_q=0, workers=8, timeout=1500):
    """TLC explores Session.tla for all docs; returns (tlc result, sorted list of (docidx, [events]))"""
    open(os.path.join(wd, "docs.json"), "w").write(docgen.to_json(docs))
    res = vlib.run_tlc("Session", "Session.cfg", wd, env={"DOCS": "docs.json"}, workers=workers, timeout=timeout,
                       consts={"MaxEv": max_ev, "MaxQ": max_q})
    reps = set()
    for t in vlib.tlc_tuples(res["text"], "REPLAY"):
        v = vlib.parse_tla_value(t)
        reps.add((v[1], tuple(".".join(e) for e in v[2])))
    res["text"] = ""
    return res, sorted(reps)


def run_sessions(docs, stimuli, wd, modes=("preload",), threads=12, extra=None):
    """runs every (doc index, events) stimulus in the real interpreter; returns list of run dicts"""
    xmls = {}
    jobs = []
    meta = {}
    jid = 0
    for (d, evs) in stimuli:
        if d not in xmls:
            xmls[d] = docs[d - 1].xml()
        for mode in modes:
            jid += 1
            job = {"id": jid, "xml": xmls[d], "events": list(evs), "mode": mode}
            if extra:
                job.update(extra)
            jobs.append(job)
            meta[jid] = (d, evs, mode)
    results = vlib.run_harness("run", jobs, wd, threads=threads)
    runs = []
    for jid, (d, evs, mode) in meta.items():
        r = results.get(jid)
        if r is None:
            raise ToolError("no result for job %d" % jid)
        runs.append({"id": jid, "d": d, "events": list(evs), "mode": mode, "res": r})
    return runs


def runs_to_traces(docs, runs):
    """-> (list of trace dicts for TLC (1-based index = position), anomalies list)"""
    traces = []
    anomalies = []
    for run in runs:
        r = run["res"]
        doc = docs[run["d"] - 1]
        if "parse_error" in r or "harness_panic" in r or "roundtrip_error" in r:
            anomalies.append((run, "parse_error" if "parse_error" in r else "harness"))
            continue
        if r.get("panic") or r.get("stall"):
            anomalies.append((run, "panic" if r.get("panic") else "stall"))
        steps = tracelib.group(r["sessions"][0]["recs"], doc, r["tmap"])
        run["steps"] = steps
        t = tracelib.trace_for_tlc(run["d"], [e.split(".") for e in run["events"]], steps, r.get("final"), doc)
        t["run"] = run["id"]
        traces.append(t)
        run["trace_index"] = len(traces)
    return traces, anomalies


def validate_traces(module, traces, wd, workers=8, timeout=1500):
    """-> (tlc result, {trace index: class or 'ok'})"""
    with open(os.path.join(wd, "traces.ndjson"), "w") as f:
        for t in traces:
            f.write(json.dumps(t) + "\n")
    res = vlib.run_tlc(module, module + ".cfg", wd, env={"DOCS": "docs.json", "TRACES": "traces.ndjson"},
                       workers=workers, timeout=timeout)
    verdict = {}
    for t in vlib.tlc_tuples(res["text"], "ACCEPT"):
        v = vlib.parse_tla_value(t)
        verdict[v[1]] = ("ok", 0)
    for t in vlib.tlc_tuples(res["text"], "REJECT"):
        v = vlib.parse_tla_value(t)
        verdict[v[1]] = (v[3], v[2])
    res["text"] = ""
    if len(verdict) != len(traces):
        raise ToolError("%s judged %d of %d traces" % (module, len(verdict), len(traces)))
    return res, verdict


def replay_obj(docs, run, cls, pos):
    doc = docs[run["d"] - 1]
    steps = run.get("steps", [])
    return {"document": doc.name, "family": doc.family, "scxml": doc.xml(), "events": run["events"],
            "mode": run["mode"], "class": cls, "step": pos,
            "observed_step": steps[pos - 1] if 0 < pos <= len(steps) else None,
            "rerun": "python3 tools/check.py --replay <this file>"}


def nontrivial_counts(runs, docs=None):
    c = {"multi_transition_microsteps": set(), "internal_events": 0, "eventless_steps": 0, "noop_events": 0,
         "microsteps": 0, "guards_observed": 0, "steps": 0, "history_target_steps": set(), "history_default_content": 0,
         "done_events": 0, "top_final_runs": 0, "cancelled_runs": 0}
    for run in runs:
        j = docs[run["d"] - 1].j if docs else None
        ks = [s["k"] for s in run.get("steps", [])]
        if "cancel" in ks:
            c["cancelled_runs"] += 1
        elif "exit" in ks:
            c["top_final_runs"] += 1
        for i, s in enumerate(run.get("steps", [])):
            c["steps"] += 1
            if j:
                for t in s["ts"]:
                    if 0 < t <= len(j["trans"]) and any(j["kind"][x - 1] == "history" for x in j["trans"][t - 1]["tgt"]):
                        c["history_target_steps"].add((run["d"], t, tuple(o["s"] for o in s["obs"] if o["k"] == "enter")))
            for o in s["obs"]:
                if o["k"] == "mark" and o["t"].startswith("h:"):
                    c["history_default_content"] += 1
                if o["k"] == "ienq" and o["v"][:2] == ["done", "state"]:
                    c["done_events"] += 1
            if s["micro"]:
                c["microsteps"] += 1
            if len(s["ts"]) >= 2:
                c["multi_transition_microsteps"].add((run["d"], tuple(s["ts"]), tuple(s["ev"])))
            if s["k"] == "internal":
                c["internal_events"] += 1
            if s["k"] == "eventless":
                c["eventless_steps"] += 1
            if s["k"] in ("internal", "external") and not s["ts"]:
                c["noop_events"] += 1
            c["guards_observed"] += len(s["gv"])
    c["multi_transition_microsteps"] = len(c["multi_transition_microsteps"])
    c["history_target_steps"] = len(c["history_target_steps"])
    return c


def sample_trace(docs, run):
    return {"document": docs[run["d"] - 1].name, "events": run["events"], "mode": run["mode"],
            "steps": [{"k": s["k"], "ev": ".".join(s["ev"]), "ts": s["ts"],
                       "obs": ["%s:%s" % (o["k"], o["s"] or o["t"] or ".".join(o["v"])) for o in s["obs"]]}
                      for s in run.get("steps", [])][:12]}


def core_check(prop, tier, seed, docs, owner_classes, module="TraceCore", max_ev=3, max_q=0, modes=("preload",),
               determinism=False, extra_note="", min_counts=None, level_text="", nontrivial_key=None, stimuli=None,
               keyfn=None):
    t0 = time.time()
    wd = vlib.workdir(prop)
    V = vlib.Verdicts(prop)
    vlib.build_harness()
    if stimuli is None:
        mc, stimuli = explore_docs(docs, wd, max_ev, max_q)
        log("[%s] TLC Session: %d docs, %d distinct states, %d behaviours (%.1fs)" % (
            prop, len(docs), mc["distinct"], len(stimuli), mc["wall"]))
    else:
        open(os.path.join(wd, "docs.json"), "w").write(docgen.to_json(docs))
        mc = {"distinct": 0, "states": 0, "wall": 0}
    runs = run_sessions(docs, stimuli, wd, modes=modes)
    traces, anomalies = runs_to_traces(docs, runs)
    tv, verdict = validate_traces(module, traces, wd)
    accepted = 0
    unjudged = {}
    for run in runs:
        ti = run.get("trace_index")
        if ti is None:
            continue
        cls, pos = verdict[ti]
        if cls == "ok":
            accepted += 1
            continue
        if cls in owner_classes:
            doc = docs[run["d"] - 1]
            key = keyfn(cls, doc, run, pos) if keyfn else \
                "%s:%s:%s" % (cls, doc.family, doc.name if doc.family == "shape" else "gen")
            V.report(key, "%s: trace rejected at step %d (%s), document %s, events %s" % (
                prop, pos, cls, doc.name, run["events"]), replay_obj(docs, run, cls, pos))
        else:
            unjudged[cls] = unjudged.get(cls, 0) + 1
    nondet = 0
    if determinism:
        by = {}
        for run in runs:
            by.setdefault((run["d"], tuple(run["events"])), []).append(run)
        for k, rs in by.items():
            ref = None
            for r in rs:
                sig = json.dumps([[s["k"], s["ev"], s["ts"], [(o["k"], o["s"], o["t"], o["v"]) for o in s["obs"]]]
                                  for s in r.get("steps", []) if s["k"] != "idle" or True])
                if ref is None:
                    ref = sig
                elif sig != ref:
                    nondet += 1
                    doc = docs[k[0] - 1]
                    V.report("nondeterministic:%s" % doc.family,
                             "two runs of the same document and events gave different traces",
                             replay_obj(docs, r, "nondeterministic", 0))
                    break
    counts = nontrivial_counts(runs, docs)
    if accepted == 0 or accepted < 0.5 * len(runs) and not V.violations:
        raise ToolError("%s: only %d of %d traces accepted (unjudged: %s, anomalies: %d) - nothing was decided" % (
            prop, accepted, len(runs), unjudged, len(anomalies)))
    for k, v in (min_counts or {}).items():
        if counts.get(k, 0) < v:
            raise ToolError("%s: vacuous run, %s = %d < %d" % (prop, k, counts.get(k, 0), v))
    rc = V.finish()
    cov = {
        "states": mc["distinct"] + tv["distinct"],
        "transitions": mc["states"] + tv["states"],
        "traces_validated_against_impl": accepted,
        "samples": [sample_trace(docs, r) for r in runs[:: max(1, len(runs) // 3)][:3]],
        "documents": len(docs),
        "behaviours_replayed": len(runs),
        "tlc_session_states": mc["distinct"], "tlc_trace_states": tv["distinct"],
        "evaluations": len(runs),
        "distinct_nontrivial": counts[nontrivial_key] if nontrivial_key else
        counts["multi_transition_microsteps"] + counts["internal_events"] + counts["eventless_steps"],
        "rule": "every maximal behaviour of Session.tla (all external event sequences up to MaxEv=%d over each "
                "document's alphabet) is replayed in the real interpreter and its recorded trace validated by %s.tla; "
                "non-trivial = microsteps with >= 2 transitions (distinct doc/transition set/event) + internal-event "
                "steps + eventless steps" % (max_ev, module),
        "counters": counts,
        "unjudged_by_class": unjudged,
        "anomalies": len(anomalies),
        "nondeterministic_pairs": nondet,
        "exhaustive": True,
    }
    vlib.write_evidence(prop, tier, seed, "model_checking", cov, time.time() - t0, len(V.violations),
                        ["the tracer callbacks and the mark/g actions report what the interpreter did (observation "
                         "layer of the harness)", "documents are those of the generated families: " + extra_note,
                         "Sem.tla transcribes the W3C algorithm; TLC explores it exhaustively only up to the stated bounds"])
    return rc


def family(seed, tier, shapes=True, nrand=0, small=0, small_sample=None, **kw):
    docs = []
    if shapes:
        docs += docgen.shape_docs()
    if nrand:
        docs += docgen.rand_docs(seed, nrand, **kw)
    if small:
        docs += docgen.small_docs(small, random.Random(seed), small_sample, history=kw.get("history", True))
    return docs


def no_history(docs):
    return [d for d in docs if "history" not in d.j["kind"]]


@check("C01")
def c01(tier, seed):
    if tier == "quick":
        docs = family(seed, tier, nrand=60, small=3, small_sample=4)
        ev = 3
    else:
        docs = family(seed, tier, nrand=600, small=4, small_sample=12)
        ev = 4
    return core_check("C01", tier, seed, docs,
                      {"exit-inactive", "enter-active", "enter-history", "snapshot", "illegal", "final", "exit-snapshot"},
                      module="TraceC01", max_ev=ev, extra_note="F-shape + F-rand + F-small",
                      min_counts={"multi_transition_microsteps": 3, "microsteps": 100})


@check("C02")
def c02(tier, seed):
    if tier == "quick":
        docs = no_history(family(seed, tier, nrand=80, small=3, small_sample=4, history=False))
        ev = 3
    else:
        docs = no_history(family(seed, tier, nrand=800, small=4, small_sample=12, history=False))
        ev = 4
    return core_check("C02", tier, seed, docs, {"enabled", "order"}, max_ev=ev, modes=("preload", "step"),
                      determinism=True, extra_note="history-free F-shape + F-rand + F-small",
                      min_counts={"multi_transition_microsteps": 3, "microsteps": 100})


@check("C03")
def c03(tier, seed):
    if tier == "quick":
        docs = family(seed, tier, nrand=80)
        ev = 3
    else:
        docs = family(seed, tier, nrand=800)
        ev = 4
    return core_check("C03", tier, seed, docs,
                      {"rtc-eventless-first", "rtc-iq-empty", "rtc-fifo", "rtc-idle-with-iq", "xorder", "noop"},
                      max_ev=ev, max_q=1, modes=("preload", "step"),
                      extra_note="F-shape + F-rand with raise chains, eventless counters",
                      min_counts={"internal_events": 20, "eventless_steps": 5, "noop_events": 20})


@check("C06")
def c06(tier, seed):
    hist = lambda ds: [d for d in ds if "history" in d.j["kind"]]
    if tier == "quick":
        docs = docgen.history_docs() + hist(family(seed, tier, nrand=120, small=3, small_sample=3))
        ev = 4
    else:
        docs = docgen.history_docs() + hist(family(seed, tier, nrand=1500, small=4, small_sample=10))
        ev = 5
    return core_check("C06", tier, seed, docs, {"enabled", "order"}, max_ev=ev,
                      extra_note="history templates + history-containing F-rand/F-small documents",
                      min_counts={"history_target_steps": 20, "history_default_content": 5},
                      nontrivial_key="history_target_steps")


@check("C07")
def c07(tier, seed):
    fin = lambda ds: [d for d in ds if "final" in d.j["kind"]]
    if tier == "quick":
        docs = docgen.final_docs() + fin(family(seed, tier, nrand=150, history=False))
        ev = 4
    else:
        docs = docgen.final_docs() + fin(family(seed, tier, nrand=1500))
        ev = 5
    return core_check("C07", tier, seed, docs, {"ienq", "exit", "final", "afterfinal"}, max_ev=ev,
                      extra_note="final-state templates + final-containing F-rand documents",
                      min_counts={"done_events": 20, "top_final_runs": 20, "cancelled_runs": 20},
                      nontrivial_key="done_events")


@check("C19")
def c19(tier, seed):
    rng = random.Random(seed)
    toks = docgen.C19_TOKENS
    if tier == "quick":
        docs = docgen.c19_docs(toks, rng, two_token=30, lists=10)
        names = docgen.c19_names(toks, rng, 80)
    else:
        docs = docgen.c19_docs(toks, rng, two_token=None, lists=60)
        names = docgen.c19_names(toks, rng, 1000)
    stimuli = []
    for i in range(len(docs)):
        ns = list(names)
        rng.shuffle(ns)
        stimuli.append((i + 1, tuple([".".join(n) for n in ns[: len(ns) // 2]] + ["go"] + [".".join(n) for n in ns[len(ns) // 2:]])))

    def key(cls, doc, run, pos):
        st = run["steps"][pos - 1]
        return "match:%s~%s" % (doc.name.split(":", 1)[1], ".".join(st["ev"]))

    return core_check("C19", tier, seed, docs, {"enabled"}, stimuli=stimuli, keyfn=key,
                      extra_note="one probe document per descriptor list (tokens incl. non-ASCII, composed/decomposed, "
                                 "astral), every name sent as external event and a subset raised internally",
                      min_counts={"internal_events": 100, "microsteps": 1000}, nontrivial_key="microsteps")


# ---------------------------------------------------------------------------------------------
def main():
    ap = argparse.ArgumentParser()
    ap.add_argument("what")
    ap.add_argument("--tier", default=os.environ.get("VERIF_TIER", "quick"))
    ap.add_argument("--replay")
    a = ap.parse_args()
    seed = int(os.environ.get("VERIF_SEED", "1") or 1)
    if a.what == "setup":
        try:
            vlib.build_harness()
        except ToolError as e:
            log(str(e))
            return 2
        return 0
    f = CHECKS.get(a.what)
    if f is None:
        log("unknown check", a.what)
        return 2
    try:
        return f(a.tier, seed)
    except ToolError as e:
        log("TOOL ERROR: %s" % e)
        return 2
    except Exception:
        traceback.print_exc()
        return 2


if __name__ == "__main__":
    sys.exit(main())
