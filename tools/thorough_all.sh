#!/bin/bash
# runs the thorough tier of every check one after the other (pauses between checks while work/PAUSE exists)
cd /verif
mkdir -p work
: > work/thorough.txt
for c in ${@:-C12 C13 C14 C15 C16 C18 C19 C20 C17 C04 C05 C09 C08 C01 C03 C02 C06 C07 C11 C10}; do
  while [ -e work/PAUSE ]; do sleep 5; done
  s=$(date +%s); timeout 7200 python3 tools/check.py $c --tier thorough > work/th_$c.log 2>&1; rc=$?; e=$(date +%s)
  echo "$c rc=$rc $((e-s))s $(grep -c '^VIOLATION' work/th_$c.log) viol $(grep -c '^KNOWN-FINDING' work/th_$c.log) known" >> work/thorough.txt
done
echo done >> work/thorough.txt
