#!/usr/bin/env python3
"""Writes /verif/MANIFEST.json from the table below (single source of truth for what is claimed)."""
import json
import os

VERIF = os.path.dirname(os.path.dirname(os.path.abspath(__file__)))

CORE_NOTE = ("Trusted: the observation layer (recording tracer / mark / g actions, internal_enqueued hook), the "
             "document renderer (abstract document -> SCXML text) and the grouping of callbacks into steps; Sem.tla is a "
             "transcription of the W3C algorithm and is explored by TLC only up to the stated bounds (documents of the "
             "generated families, external event sequences up to MaxEv).")

CLAIMS = {
    "C01": dict(
        category="model_checking", design_ref="4/C01",
        technique="TLC model checking of Session.tla (LegalInv) + trace validation of recorded runs against TraceC01.tla",
        text="Session.tla is model-checked (Legal configuration invariant, all external event sequences up to the bound) "
             "for every generated document; every maximal behaviour TLC finds is replayed in the real interpreter and "
             "the recorded enter/exit callbacks and configuration snapshots are validated in every step by "
             "TraceC01.tla (exit-only-if-active, enter-only-if-inactive, Legal after every microstep, reported final "
             "configuration). Exhaustive over the bounded document families, not a proof for all documents.",
        note=CORE_NOTE),
    "C02": dict(
        category="model_checking", design_ref="4/C02",
        technique="TLC-generated behaviours replayed into the interpreter; lock-step trace validation against Sem.tla (TraceCore.tla)",
        text="For every history-free generated document and every external event sequence up to the bound the real "
             "interpreter's recorded steps (enabled transition set, exit order, transition bodies, entry order) must be "
             "exactly what Sem.tla computes from the same pre-state, event and observed guard values; each behaviour is "
             "run twice (events queued ahead / one at a time) and the two traces must be identical.",
        note=CORE_NOTE),
    "C03": dict(
        category="model_checking", design_ref="4/C03",
        technique="TLC model checking of Session.tla (IdleQuiescent, ExternalOrder) + lock-step trace validation (TraceCore.tla, rtc classes)",
        text="Session.tla is model-checked with host sends enabled during macrosteps (IdleQuiescent, ExternalOrder); every "
             "recorded run is validated step by step: eventless transitions before internal events, internal events in "
             "FIFO order of the observed enqueues (hook), idle only when quiescent, external events in send order each "
             "once, and an event without enabled transition leaves no observation.",
        note=CORE_NOTE),
    "C04": dict(
        category="translation_validation", design_ref="4/C04",
        technique="Mirror.tla: refinement relation document -> reader model, evaluated by TLC on dumped models; SameModel across lexical variants",
        text="Random documents over every element kind and attribute combination (states/parallel/final/history, forward "
             "references, multi-targets, initial attribute/element/default, data expr/content, invoke with all attributes, "
             "param/content/finalize, donedata, send with all attribute alternatives and delay spellings, cancel, log, script, "
             "assign with body, nested if/elseif/else and foreach) are serialised in 10 lexical variants (canonical, whitespace "
             "and comments, single quotes, entity escapes, namespace prefix, attribute order, open/close, descriptor spellings "
             "e / e. / e.*, XInclude of fragments, CDATA); the reader's model is dumped through its public fields and TLC "
             "evaluates Mirrors(D, M) (bijection by name, document order from the reader's ids, kinds, parent/children/history "
             "links, initial synthesis, transitions with normalised descriptors and wildcard flag, content trees) and "
             "SameModel(M_variant, M_canonical).",
        note="Trusted: the model dump (harness/src/dump.rs) and the canonicalisation in tools/syntaxgen.py; coverage is that of the generator."),
    "C05": dict(
        category="translation_validation", design_ref="4/C05",
        technique="Mirror.tla SameModel/Mirrors on reloaded models + TraceCore.tla on behaviours of the reloaded machine + primitive vectors from Rfsm.tla",
        text="(1) For random documents over all element kinds the model obtained by parse -> write -> read must be the same model "
             "as the parsed one and must mirror the document (Mirror.tla, evaluated by TLC). (2) Every behaviour TLC finds for the "
             "runnable document families is replayed on the reloaded machine; its trace must be accepted by TraceCore.tla and be "
             "identical to the original machine's trace. (3) Rfsm.tla specifies the wire format of unsigned integers and strings; "
             "TLC checks Dec(Enc(x)) = x on boundary and irregular nibble patterns of every width and emits the vectors, which "
             "(plus random 64-bit values) must survive write_uint/read_uint and write_str/read_string; data values of all ten variants "
             "(nested arrays / maps, extreme integers and doubles, sources with ids) are enumerated with EncData/DecData (DataRoundTrip) "
             "and must survive write_data/read_data with the specified tag.",
        note="Trusted: model dump/canonicalisation; generated document families. Known finding: strings >= 4096 bytes."),
    "C06": dict(
        category="model_checking", design_ref="4/C06",
        technique="TLC model checking of Session.tla (HistShape) + lock-step trace validation against Sem.tla on history documents",
        text="For history templates (shallow/deep, nested, several per parent, in parallel regions, as initial target) and "
             "history-containing generated documents, every maximal behaviour (event sequences up to 4/5 so that states "
             "are left and re-entered) is replayed; the recorded entry sets, their order and the default-transition content "
             "marks must equal what Sem.tla computes from the history value recorded at exit time.",
        note=CORE_NOTE),
    "C07": dict(
        category="model_checking", design_ref="4/C07",
        technique="TLC model checking of Session.tla (StoppedMeansFinal) + lock-step trace validation (classes ienq/exit/final/afterfinal)",
        text="For final-state templates (compound, parallel regions, nested parallels, top-level final with queued events, "
             "cancel) and generated documents with finals: the observed done.state.* enqueues (order, exactly once), the "
             "absence of any step after a top-level final, the onexit marks of exitInterpreter in exit order and the "
             "reported final configuration must equal the model's; the payload of every done.state event (<donedata> params evaluated "
             "when the final state has been entered, after transition content and the final's onentry; none for the done event of a "
             "parallel) is compared as text with Sem.DonePayload. done.invoke is decided by C14.",
        note=CORE_NOTE),
    "C08": dict(
        category="model_checking", design_ref="4/C08",
        technique="TLC-generated behaviours replayed; lock-step trace validation of marks and internal enqueues against Sem.ExecBlock",
        text="Random nested executable content (if/elseif/else, foreach incl. failing/non-collection arrays, assign to declared and "
             "undeclared locations, raise, send to #_internal, log, script) in onentry/onexit/transition/initial/history-default "
             "bodies, plus variants with a failing expression injected at each expression position; for every behaviour the "
             "order of the recorded marks (branch taken, iteration order, data values), every internal enqueue (raised events, "
             "error.execution, observed through the hook) and the continuation after the aborted block must equal Sem.tla. "
             "Run for rfsm-expression and ecmascript (strict option); raise/send/if-In also for the null datamodel.",
        note=CORE_NOTE + " An error in a <param> of <send> is not exercised (the Recommendation is ambiguous there)."),
    "C09": dict(
        category="model_checking", design_ref="4/C09",
        technique="lock-step trace validation against Sem.tla (In() vectors, guard values, late/early binding) + TraceC09.tla (event fields, system variables)",
        text="(a) Every onentry/onexit/transition/initial/history body of the shape, history and random documents marks the "
             "vector In(s) for all states; the recorded vectors and every logged guard value must equal what Sem.tla computes "
             "from the configuration at that moment (a state is active during its own onexit, from its own onentry on); null "
             "datamodel In() guards are judged by the transition taken; a parent/child template checks In() after <invoke>. "
             "(b) State-level data under early and late binding (with and without initial attribute) are read at every point and "
             "must show the model's values (unassigned before first entry under late binding, not re-initialised on re-entry). "
             "(c) TraceC09.tla: content reading the seven _event fields must see the fields of the event the tracer reports for "
             "external, raised, #_internal-sent (params/content/sendid) and platform events; each attempt to modify _sessionid, "
             "_name, _ioprocessors, _event and every _event field by <assign>, script '=', '?=' and <foreach> must raise "
             "error.execution and leave the value intact (rfsm-expression and ecmascript with the strict option).",
        note=CORE_NOTE + " ECMAScript without the strict option (silent non-writes) is not checked."),
    "C10": dict(
        category="model_checking", design_ref="4/C10",
        technique="Expr.tla (precedence, left-to-right grouping, value semantics) enumerated by TLC as generator + oracle; engine evaluated on every text",
        text="TLC enumerates every expression operand (op operand)^K (K=1 over all 28 operand classes and 14 operators, K=2/3 over "
             "reduced sets) with an optional parenthesised sub-range and optional '!', computes the value with Expr.tla "
             "(Integer saturating arithmetic incl. symbolic i64 MAX/MIN, Double as exact rational, string/array/map aggregation, "
             "structural equality); the engine must return the same value through the parser, a freshly compiled datamodel "
             "expression and the cached compilation, and for whitespace / redundant-parenthesis variants of the text. Cases the "
             "documentation leaves undefined are not judged. Store.tla enumerates programs (statement [; statement] [; read]) over a "
             "fixed store - member / index reads, '=' and '?=' on declared, undeclared and read-only variables, members and elements - "
             "with the set of allowed (result, store) outcomes; the engine's result and store dump must be one of them. "
             "Every text is also evaluated as a source without identity after a different such text on the same datamodel (path d).",
        note="Trusted: Expr.tla as the reading of the documented semantics; the harness' value encoding; Doubles compared within 1e-12."),
    "C11": dict(
        category="model_checking", design_ref="4/C11",
        technique="ExprFuzz.tla enumerates all token sequences up to L with TLC; outcomes of the real engine validated by TraceC11.tla",
        text="All token sequences up to length L over a 45-token adversarial alphabet (L=2 quick / 3 thorough) and a 20-token "
             "alphabet (L=3 / 4), structured long inputs (18 families, n up to 10^4 / 10^5) and seeded mutations are evaluated on a "
             "populated store through parser, datamodel (compile + cache) and condition evaluation in a 2 MB-stack thread of a "
             "sacrificial process under a watchdog, followed by a probe evaluation on the same store; TraceC11.tla accepts only "
             "value/error outcomes with a usable store (rejects panic, hang, process death, locked/poisoned store). A missed short time limit "
             "is examined again on its own (40 s) before it counts as a hang.",
        note="Bounded enumeration; arbitrary byte strings outside the generated families are not covered."),
    "C12": dict(
        category="fault_enumeration", design_ref="4/C12",
        technique="TraceC12.tla: total outcome table of platform operations; recorded runs of F-odd documents validated against it",
        text="F-odd documents put a failing form into every slot: each expression attribute of <send> (eventexpr, targetexpr, "
             "typeexpr, delayexpr, namelist, param expr/location, content expr), unsupported type, malformed target, unknown "
             "session / missing parent / unknown invokeid, illegal delays, failing <cancel>/<assign>/<log>/<script>/<if>/<foreach>, "
             "a failing transition condition, failing <data> and <donedata>, twelve failing forms of <invoke> (type, src, content, "
             "params, unparsable or unsupported child documents), an unknown datamodel name, and reserved event names sent by "
             "the host; each odd event is followed by a probe event, in several orders, for rfsm-expression and ecmascript; a "
             "two-session scenario sends to a session that has finished (unreachable: error.communication). "
             "TraceC12.tla accepts a run only if the session thread did not panic, every probe was answered, the error event "
             "the Recommendation assigns (Outcome table) appeared on the internal queue, all events were processed and the final "
             "cancel ended the session. The content cases include <foreach> loops that read, re-iterate, assign or shadow the iterated collection.",
        note="A stall is judged by a 20 s deadline after all events were queued; documents the reader rejects are outside the property."),
    "C13": dict(
        category="model_checking", design_ref="4/C13",
        technique="TLC model checking of Queue.tla (producers / consumer with atomic append) + trace validation of recorded multi-producer runs (TraceC13.tla)",
        text="Queue.tla (N producers appending atomically, one consumer completing each macrostep before the next dequeue) is "
             "model-checked exhaustively for 3 producers x 2 events: PerSenderOrder, NoLossNoDup, NoOverlap and the liveness "
             "property AllConsumed. Real runs with 2-16 host producer threads (with jitter; through the channel handle and through FsmExecutor::send_to_session), a timer producer (delayed sends), an invoked child whose invoking state is left and re-entered (same invoke id) and "
             "a second session sending by session id are recorded: every producer logs its own send order, the session marks the "
             "first and the last content of each macrostep; TraceC13.tla accepts a run only if the consumed sequence is a merge "
             "of the producers' sequences (each event exactly once, per-sender order) and has the shape (dequeue, begin, end)*; every macrostep "
             "of the consumer queues an internal event that matches nothing before the one that ends it.",
        note="The real scheduler is steered, not enumerated; exhaustiveness is at the model level. HTTP producers are covered by C20."),
    "C14": dict(
        category="model_checking", design_ref="4/C14",
        technique="TLC model checking of Invoke.tla and Platform.tla (invoke life cycle; composition with timers and cancellation cascade) + trace validation of recorded parent/child/grandchild scenarios (TraceC14.tla, TracePlatform.tla), scenarios partly simulated by TLC from Platform.tla",
        text="Invoke.tla (a parent with an invoking state, a child that sends events and may finish, cancellation on exit, the "
             "dequeue filter) is model-checked for InvokeOncePerStableEntry, NothingAfterCancel and DoneInvokeOnceAndLast over "
             "all interleavings. Recorded scenarios (parent with a transient invoking state, two simultaneous invokes - one "
             "with params and finalize, one with autoforward - and a re-entered invoking state; settled, jittered and back-to-back "
             "event timings) are judged by TraceC14.tla from the tracer records of the parent and of every child: starts "
             "exactly for the states stable at macrostep end, one cancel per running invoke on exit, no child event (by "
             "invoke id) after its cancel, finalize exactly for events of that invoke, forwarded copies exactly for "
             "autoforward children, param and namelist values only for declared data, done.invoke once and only for children that finished "
             "- and processed whenever it was in the queue before the host sent the event that leaves the state; invokes with explicit and "
             "with generated ids, an invoke whose argument fails (started at most once), every session ended after its parent. Invoke.tla "
             "also describes the filter the implementation used before repair d0e4562 (per invoke id) and TLC must keep refuting it. "
             "Platform.tla composes invoke, timers and cancellation over a three-level invoke tree (parent, child, grandchild; events relayed "
             "upwards, commands downwards, two-step exit) and is model-checked for NothingAfterCancel, DoneOnceAndLast, NoOrphan, AtMostOnce "
             "(+ liveness OrphansEnd, QueuesDrain) with three refuted variants; behaviours simulated from it and directed scenarios "
             "(also under a lock-acquisition delay that widens the window between done.invoke and the drop of the finished session) "
             "are run in the interpreter and judged by TracePlatform.tla.",
        note="Timings are steered (settle pauses, jitter, back-to-back sends), not enumerated; the race outcomes are enumerated only "
             "in Invoke.tla. Whether <finalize> also runs for done.invoke itself is not judged. Only inline <content> children."),
    "C15": dict(
        category="model_checking", design_ref="4/C15",
        technique="TraceC15.tla: routing function Dest(topology, sender, target form) and delivery predicate evaluated by TLC on recorded multi-session scenarios",
        text="Topologies of two siblings and of parent + invoked child + sibling, each started through start_fsm and through "
             "FsmExecutor::execute: every session sends through every applicable target form (#_internal, no target, "
             "#_scxml_<id> via targetexpr, #_parent, #_<invokeid>; literal and targetexpr, immediate and delayed) with every payload kind (none, params, namelist, content expr, "
             "content text); every receiver marks all _event fields and replies to _event.origin / _event.origintype. "
             "TraceC15.tla computes the addressed queue (Dest) and accepts a scenario only if each send was received exactly "
             "once, only in that queue, with name, sendid and data unchanged, origintype of the SCXML processor, and the reply "
             "arrived back at the sender; session ids and generated (idlocation) ids of 16 concurrently started sessions must "
             "be unique. Payload shapes: none, params, namelist, namelist together with params, content text, content expression.",
        note="The executed sends are known from the generated documents; receptions are what content saw in _event."),
    "C16": dict(
        category="model_checking", design_ref="4/C16",
        technique="TLC model checking of Delay.tla (timers, cancel, termination; safety + liveness) + TLC-simulated behaviours of the same spec replayed in the interpreter + trace validation with measured time intervals (TraceC16.tla)",
        text="Delay.tla (two sessions with one timer each, delayed sends with and without id, <cancel>, data changes, termination, "
             "late but never early timers) is model-checked for NoEarly, AtMostOnce, ValueAtExec, DueOrder, CancelPrevents, "
             "TerminationDiscards, CancelIsolated and the liveness property ExactlyOnce. Behaviours simulated by TLC from the "
             "same spec and directed scenarios are replayed against two real sessions (commands at 40 ms ticks, delays in "
             "between, every delay written in a randomly chosen spelling: ms / s / m, fractions, delayexpr literal and variable; ids given, "
             "absent or generated through idlocation and cancelled through the location; back-to-back pairs with fractional-millisecond delays); "
             "marks before and after each <send>/<cancel> and at reception give time intervals, and TraceC16.tla (which also "
             "computes the expected milliseconds from the spelling) rejects early, duplicate, lost, wrongly valued, "
             "delivered-after-cancel, delivered-after-termination and out-of-due-order deliveries whenever the intervals make the case certain. "
             "The scenarios of Platform.tla (timers of invoked children and grandchildren racing their completion and cancellation, also with a "
             "delayed drop of the finished session) are run as well; TracePlatform.tla rejects a delivery whose sender had ended before the event was due.",
        note="Real time is measured, not controlled: cases inside the measurement uncertainty are not judged; a timer later than 400 ms counts as lost. "
             "Thread interleavings of timer and session are not enumerated."),
    "C17": dict(
        category="model_checking", design_ref="4/C17",
        technique="Locks.tla: TLC explores all interleavings of the critical sections recorded from the implementation (instrumented mutex hook); every predicted wait-for cycle is replayed into the implementation by steering the real threads to the predicted program points",
        text="Scenarios (sessions with firing timers that invoke and cancel children, send to each other, are started, cancelled and shut "
             "down concurrently) run with the instrumented mutex; the distinct critical sections of every thread (locks shared by at least "
             "two threads, leaf locks removed) become the thread programs of Locks.tla. TLC explores every interleaving of every 2 (thorough: 3) "
             "threads of a run and reports each reachable state in which threads wait for locks held among themselves. Each predicted "
             "cycle is then reproduced in the implementation: the lock hook holds the real threads at the predicted points (holding the "
             "first lock, about to request the second, same lock instances) and releases them together; a stall whose wait-for graph "
             "contains the cycle is a deadlock and is reported. A stall in any recorded run is reported as well.",
        note="Sound only for lock nestings that occur in a recorded run; the model ignores happens-before between segments, therefore a predicted "
             "cycle counts only when it is reproduced (unreproduced predictions are listed in the evidence). Condition variables / channel waits are not modelled."),
    "C18": dict(
        category="fault_enumeration", design_ref="4/C18",
        technique="Rfsm.tla reader/writer protocol model-checked (CutIsError); every cut position and every single write fault of real images validated by TraceC18.tla",
        text="The abstract reader protocol of Rfsm.tla (fields consumed from a stream that ends after `cut` bytes, sticky error flag) "
             "is model-checked: a truncated image is never reported as success. For images written from random documents, "
             "FsmReader::read is run on EVERY prefix length under catch_unwind, and the writer is run with EVERY write call made "
             "short (the sink accepts 1 byte) or failing in turn; TraceC18.tla accepts an experiment only if a cut image gives "
             "Err (never Ok, never a panic), a short write leaves the emitted image unchanged and a failed write is visible in "
             "has_error(). Directed single-block documents make the image end in each kind of field (long, short, multi-byte and 12-bit-length strings, numbers).",
        note="Faults are injected through the Read/Write objects handed to DefaultProtocolReader/Writer; bit corruption (as opposed to truncation) is out of scope of the property."),
    "C19": dict(
        category="model_checking", design_ref="4/C19",
        technique="trace validation of probe documents against Sem.NameMatch (token-prefix matching) under TLC",
        text="One probe document per event-descriptor list (1-2 tokens, spellings d / d. / d.*, '*', lists) over a token "
             "alphabet with ASCII, accented, CJK, decomposed and astral tokens; every name (1-3 tokens, incl. empty "
             "tokens) is sent as external event and a subset raised internally; TLC checks for every received event that "
             "the transition the interpreter selected is the one Sem.NameMatch prescribes (descriptor spellings incl. repeated '.', '.*' suffixes "
             "and '*' among other descriptors). Bounded-exhaustive over the alphabet.",
        note=CORE_NOTE + " The reader's descriptor normalisation is part of what is checked."),
    "C20": dict(
        category="model_checking", design_ref="4/C20",
        technique="TLC model checking of Http.tla (request handler + concurrent clients) + trace validation of recorded HTTP scenarios with Http!Handle (TraceC20.tla)",
        text="Http.tla specifies the request handler (Handle: answer and enqueued event of a POST) and is model-checked with "
             "concurrent clients posting all pairs of seven request shapes (ExactlyAccepted, RepliesTruthful, PerClientOrder, Faithful). "
             "Against the real server (rocket inside the harness process) requests of seven kinds (plain, with parameters, with "
             "_content, without event name, wrongly spelled name field, unknown numeric session, non-numeric session) are posted for 22 "
             "tokens needing URL encoding (blank, &, =, +, %, #, ?, /, quotes, accented, CJK, astral, combining) with blanks spelled "
             "'+' and '%20', sequentially and from concurrent client threads; a second session sends events with typed parameters "
             "through <send type=BasicHTTP> to the location the receiver published in _ioprocessors. TraceC20.tla applies Http!Handle "
             "to every recorded request: status class, exactly one event per accepted request with exactly the expected data, nothing "
             "for rejected ones, no spurious event, per-client order, textual parameter values.",
        note="The port 5555 is hard-coded in BasicHTTPEventIOProcessor::new: scenarios run one at a time under a file lock and a busy port "
             "is a tool error (exit 2). Requests with duplicate field names or with both _content and other fields are not generated."),
}

NOT_YET = {
}

ALL = ["C%02d" % i for i in range(1, 21)]


def main():
    checks = []
    for pid in ALL:
        c = CLAIMS.get(pid)
        if not c:
            continue
        checks.append({
            "property_id": pid,
            "quick_cmd": "python3 tools/check.py %s --tier quick" % pid,
            "thorough_cmd": "python3 tools/check.py %s --tier thorough" % pid,
            "evidence_file": "/verif/evidence/%s.json" % pid,
            "replay_cmd_template": "python3 tools/check.py %s --replay {path}" % pid,
            "engine": "tlc+vh",
            "level_claimed": {"category": c["category"], "text": c["text"], "design_ref": c["design_ref"]},
            "level_note": c["note"],
            "technique": c["technique"],
        })
    na = []
    for pid in ALL:
        if pid not in CLAIMS:
            na.append({"property_id": pid, "reason": NOT_YET.get(pid, "check not built yet (work in progress, see DESIGN.md section 4); nothing is claimed for it")})
    m = {
        "version": 1,
        "setup_cmd": "python3 tools/check.py setup",
        "hooks": {
            "guard": "rfsm_verif",
            "enable": "RUSTFLAGS='--cfg rfsm_verif' via /verif/harness/.cargo/config.toml (the harness depends on /repo by path). 2226aba only adds code; fa7654f additionally splits five `use std::sync::{.., Mutex, ..}` lines into cfg-guarded alternatives (an import cannot be overridden by adding a line), with the guard off the imports are the original ones",
            "baseline_off_cmd": "cd /repo && cargo test --workspace --no-fail-fast --offline",
            "source_commits": HOOK_COMMITS,
            "add_only": False,
        },
        "engines": [
            {"name": "tlc+vh", "path": "/verif/tools/check.py",
             "serves_properties": sorted(CLAIMS.keys()),
             "kind_free_text": "explicit TLA+ specifications (spec/*.tla) checked with TLC; bound to the code by replaying "
                               "TLC-generated behaviours in the Rust harness (harness/, binary vh) and validating the recorded "
                               "traces with per-property trace specifications"},
        ],
        "checks": checks,
        "not_applicable": na,
        "notes": "exit codes: 0 held / 1 VIOLATION line printed / 2 tool error or timeout. Known findings: /verif/known_findings.json.",
    }
    with open(os.path.join(VERIF, "MANIFEST.json"), "w") as f:
        json.dump(m, f, indent=1)
    print("MANIFEST.json: %d checks, %d not_applicable" % (len(checks), len(na)))


HOOK_COMMITS = ["2226aba", "fa7654f"]

if __name__ == "__main__":
    main()
