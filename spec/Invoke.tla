------------------------------- MODULE Invoke -------------------------------
(***************************************************************************)
(* C14: life cycle of one <invoke> in a parent session, design level.       *)
(* The parent enters / leaves the invoking state; at the end of a macrostep *)
(* it starts the child for a state entered and still active; the child      *)
(* sends events and finally done.invoke (when it reaches a top-level final);*)
(* leaving the state cancels the child.  All relative orders of child       *)
(* events, child completion and parent-side cancellation are explored.      *)
(*                                                                         *)
(* Filter selects how the parent recognises events of cancelled children:   *)
(*   "session"  by the session that sent the event (the implementation      *)
(*              after repair d0e4562: origin of the event);                 *)
(*   "invokeid" by the invoke id, as the implementation did before: the id  *)
(*              is marked cancelled on exit and unmarked when the state is  *)
(*              re-entered; while a child with that id is active, events of *)
(*              other sessions carrying the id are dropped.  TLC refutes    *)
(*              NothingAfterCancel for it with two entries of the state:    *)
(*              a late event of the first child arrives after the second    *)
(*              child has finished.                                        *)
(***************************************************************************)
EXTENDS Naturals, Sequences, FiniteSets, TLC
CONSTANTS MaxChildEv, MaxEnter, Filter
VARIABLES inState,     \* parent is in the invoking state
          pending,     \* state entered in the current macrostep, invoke not yet executed
          gen,         \* generation counter of invocations (each start is a new child)
          child,       \* "none" | "running" | "final" | "cancelled"   (status of the current generation)
          sent,        \* number of events the current child has sent
          pq,          \* parent's external queue: sequence of [g, kind] kind in {"ev", "done"}
          processed,   \* sequence of [g, kind] the parent processed
          cancelledGen,\* generations the parent has cancelled
          starts,      \* number of children started
          enters,      \* number of times the state was entered and stayed until macrostep end
          active,      \* generation registered under the invoke id in the parent's table of children (0 = none)
          idCancelled, \* the invoke id is marked as cancelled (Filter = "invokeid")
          lateSent     \* events sent by children after the parent cancelled them (they have not seen the cancel yet)
vars == <<inState, pending, gen, child, sent, pq, processed, cancelledGen, starts, enters, active, idCancelled, lateSent>>
Init == inState = FALSE /\ pending = FALSE /\ gen = 0 /\ child = "none" /\ sent = 0 /\ pq = <<>> /\ processed = <<>>
        /\ cancelledGen = {} /\ starts = 0 /\ enters = 0 /\ active = 0 /\ idCancelled = FALSE /\ lateSent = 0
Enter == /\ ~inState /\ enters + starts < MaxEnter
         /\ inState' = TRUE /\ pending' = TRUE
         /\ UNCHANGED <<gen, child, sent, pq, processed, cancelledGen, starts, enters, active, idCancelled, lateSent>>
\* entered and exited within the same macrostep: no invoke
LeaveTransient == /\ inState /\ pending
                  /\ inState' = FALSE /\ pending' = FALSE
                  /\ UNCHANGED <<gen, child, sent, pq, processed, cancelledGen, starts, enters, active, idCancelled, lateSent>>
MacroEnd == /\ inState /\ pending
            /\ pending' = FALSE /\ gen' = gen + 1 /\ child' = "running" /\ sent' = 0
            /\ starts' = starts + 1 /\ enters' = enters + 1
            /\ active' = gen + 1 /\ idCancelled' = FALSE
            /\ UNCHANGED <<inState, pq, processed, cancelledGen, lateSent>>
ChildSend == /\ child = "running" /\ sent < MaxChildEv
             /\ sent' = sent + 1 /\ pq' = Append(pq, [g |-> gen, kind |-> "ev"])
             /\ UNCHANGED <<inState, pending, gen, child, processed, cancelledGen, starts, enters, active, idCancelled, lateSent>>
ChildFinal == /\ child = "running"
              /\ child' = "final" /\ pq' = Append(pq, [g |-> gen, kind |-> "done"])
              /\ UNCHANGED <<inState, pending, gen, sent, processed, cancelledGen, starts, enters, active, idCancelled, lateSent>>
\* a cancelled child whose thread has not yet processed the cancel event still sends
LateSend == /\ lateSent < 1
            /\ \E g \in cancelledGen : pq' = Append(pq, [g |-> g, kind |-> "ev"])
            /\ lateSent' = lateSent + 1
            /\ UNCHANGED <<inState, pending, gen, child, sent, processed, cancelledGen, starts, enters, active, idCancelled>>
DoneSeen == \E k \in DOMAIN processed : processed[k].g = gen /\ processed[k].kind = "done"
Leave == /\ inState /\ ~pending
         /\ inState' = FALSE
         /\ cancelledGen' = (IF child \in {"running", "final"} /\ ~DoneSeen THEN cancelledGen \cup {gen} ELSE cancelledGen)
         /\ child' = (IF child = "running" THEN "cancelled" ELSE child)
         /\ active' = 0 /\ idCancelled' = (IF active # 0 THEN TRUE ELSE idCancelled)
         /\ UNCHANGED <<pending, gen, sent, pq, processed, starts, enters, lateSent>>
\* the parent dequeues: events of cancelled invocations are discarded
Discard(e) == IF Filter = "session" THEN e.g \in cancelledGen
              ELSE IF active = 0 THEN idCancelled ELSE e.g # active
Dequeue == /\ pq # <<>> /\ ~pending
           /\ pq' = Tail(pq)
           /\ processed' = (IF Discard(Head(pq)) THEN processed
                            ELSE Append(processed, [g |-> Head(pq).g, kind |-> Head(pq).kind, late |-> Head(pq).g \in cancelledGen]))
           \* a processed done.invoke removes the child from the table
           /\ active' = (IF ~Discard(Head(pq)) /\ Head(pq).kind = "done" THEN 0 ELSE active)
           /\ UNCHANGED <<inState, pending, gen, child, sent, cancelledGen, starts, enters, idCancelled, lateSent>>
Next == Enter \/ LeaveTransient \/ MacroEnd \/ ChildSend \/ ChildFinal \/ LateSend \/ Leave \/ Dequeue \/ UNCHANGED vars
Spec == Init /\ [][Next]_vars

InvokeOncePerStableEntry == starts = enters
\* no event of an invocation is processed after the parent cancelled it
NothingAfterCancel == \A k \in DOMAIN processed : ~processed[k].late
DoneInvokeOnceAndLast ==
  \A g \in 1..gen :
    LET idx == { k \in DOMAIN processed : processed[k].g = g } IN
    /\ Cardinality({ k \in idx : processed[k].kind = "done" }) <= 1
    /\ \A k \in idx : processed[k].kind = "done" => \A j \in idx : j <= k
=============================================================================
