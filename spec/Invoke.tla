------------------------------- MODULE Invoke -------------------------------
(***************************************************************************)
(* C14: life cycle of one <invoke> in a parent session, design level.       *)
(* The parent enters / leaves the invoking state; at the end of a macrostep *)
(* it starts the child for a state entered and still active; the child      *)
(* sends events and finally done.invoke (when it reaches a top-level final);*)
(* leaving the state cancels the child.  All relative orders of child       *)
(* events, child completion and parent-side cancellation are explored.      *)
(***************************************************************************)
EXTENDS Naturals, Sequences, FiniteSets, TLC
CONSTANTS MaxChildEv, MaxEnter
VARIABLES inState,     \* parent is in the invoking state
          pending,     \* state entered in the current macrostep, invoke not yet executed
          gen,         \* generation counter of invocations (each start is a new child)
          child,       \* "none" | "running" | "final" | "cancelled"   (status of the current generation)
          sent,        \* number of events the current child has sent
          pq,          \* parent's external queue: sequence of [g, kind] kind in {"ev", "done"}
          processed,   \* sequence of [g, kind] the parent processed
          cancelledGen,\* generations the parent has cancelled
          starts,      \* number of children started
          enters       \* number of times the state was entered and stayed until macrostep end
vars == <<inState, pending, gen, child, sent, pq, processed, cancelledGen, starts, enters>>
Init == inState = FALSE /\ pending = FALSE /\ gen = 0 /\ child = "none" /\ sent = 0 /\ pq = <<>> /\ processed = <<>>
        /\ cancelledGen = {} /\ starts = 0 /\ enters = 0
Enter == /\ ~inState /\ enters + starts < MaxEnter
         /\ inState' = TRUE /\ pending' = TRUE
         /\ UNCHANGED <<gen, child, sent, pq, processed, cancelledGen, starts, enters>>
\* entered and exited within the same macrostep: no invoke
LeaveTransient == /\ inState /\ pending
                  /\ inState' = FALSE /\ pending' = FALSE
                  /\ UNCHANGED <<gen, child, sent, pq, processed, cancelledGen, starts, enters>>
MacroEnd == /\ inState /\ pending
            /\ pending' = FALSE /\ gen' = gen + 1 /\ child' = "running" /\ sent' = 0
            /\ starts' = starts + 1 /\ enters' = enters + 1
            /\ UNCHANGED <<inState, pq, processed, cancelledGen>>
ChildSend == /\ child = "running" /\ sent < MaxChildEv
             /\ sent' = sent + 1 /\ pq' = Append(pq, [g |-> gen, kind |-> "ev"])
             /\ UNCHANGED <<inState, pending, gen, child, processed, cancelledGen, starts, enters>>
ChildFinal == /\ child = "running"
              /\ child' = "final" /\ pq' = Append(pq, [g |-> gen, kind |-> "done"])
              /\ UNCHANGED <<inState, pending, gen, sent, processed, cancelledGen, starts, enters>>
DoneSeen == \E k \in DOMAIN processed : processed[k].g = gen /\ processed[k].kind = "done"
Leave == /\ inState /\ ~pending
         /\ inState' = FALSE
         /\ cancelledGen' = (IF child \in {"running", "final"} /\ ~DoneSeen THEN cancelledGen \cup {gen} ELSE cancelledGen)
         /\ child' = (IF child = "running" THEN "cancelled" ELSE child)
         /\ UNCHANGED <<pending, gen, sent, pq, processed, starts, enters>>
\* the parent dequeues: events of cancelled invocations are discarded
Dequeue == /\ pq # <<>> /\ ~pending
           /\ pq' = Tail(pq)
           /\ processed' = (IF Head(pq).g \in cancelledGen THEN processed
                            ELSE Append(processed, [g |-> Head(pq).g, kind |-> Head(pq).kind, late |-> Head(pq).g \in cancelledGen]))
           /\ UNCHANGED <<inState, pending, gen, child, sent, cancelledGen, starts, enters>>
Next == Enter \/ LeaveTransient \/ MacroEnd \/ ChildSend \/ ChildFinal \/ Leave \/ Dequeue \/ UNCHANGED vars
Spec == Init /\ [][Next]_vars

InvokeOncePerStableEntry == starts = enters
\* no event of an invocation is processed after the parent cancelled it
NothingAfterCancel == \A k \in DOMAIN processed : ~processed[k].late
DoneInvokeOnceAndLast ==
  \A g \in 1..gen :
    LET idx == { k \in DOMAIN processed : processed[k].g = g } IN
    /\ Cardinality({ k \in idx : processed[k].kind = "done" }) <= 1
    /\ \A k \in idx : processed[k].kind = "done" => \A j \in idx : j <= k
=============================================================================
