SPECIFICATION Spec
CONSTANT MaxFields = 1
CONSTANT MaxSize = 1
INVARIANT RoundTrip
INVARIANT Aligned
INVARIANT Minimal
INVARIANT Emit
CHECK_DEADLOCK TRUE
