SPECIFICATION Spec
CONSTANT MaxFields = 1
CONSTANT MaxSize = 1
INVARIANT RoundTrip
INVARIANT Aligned
INVARIANT Minimal
INVARIANT DataRoundTrip
INVARIANT Emit
CHECK_DEADLOCK TRUE
