------------------------------ MODULE TraceC13 ------------------------------
(***************************************************************************)
(* Validation of recorded concurrent-producer runs against Queue.tla.       *)
(* A run: prods = for every producer the names it sent, in its own order;   *)
(* seq = what the consuming session recorded, in its program order:         *)
(*   <<"X", name>> external event dequeued, <<"B", name>> first content of  *)
(*   its macrostep ran, <<"E", name>> last content of its macrostep ran.    *)
(* The run is a behaviour of Queue iff                                      *)
(*   - the consumed names are a merge of the producers' sequences           *)
(*     (exactly once each, per-sender order)             [PerSenderOrder,   *)
(*                                                        NoLossNoDup]      *)
(*   - seq = (X n, B n, E n)*                             [NoOverlap]       *)
(***************************************************************************)
EXTENDS Naturals, Sequences, FiniteSets, TLC, Json, IOUtils, SequencesExt
Runs == ndJsonDeserialize(IOEnv.TRACES)
VARIABLES i, verdict
Consumed(r) == SelectSeq(r.seq, LAMBDA e : e[1] = "X")
Names(q) == [k \in DOMAIN q |-> q[k][2]]
ProjNames(r, p) == SelectSeq(Names(Consumed(r)), LAMBDA n : \E k \in DOMAIN r.prods[p] : r.prods[p][k] = n)
Total(r) == FoldLeft(LAMBDA a, p : a + Len(r.prods[p]), 0, [p \in DOMAIN r.prods |-> p])
RunClass(r) ==
  IF \E p \in DOMAIN r.prods : ProjNames(r, p) # r.prods[p] THEN
     (IF \E p \in DOMAIN r.prods : Len(ProjNames(r, p)) < Len(r.prods[p]) THEN "lost"
      ELSE IF \E p \in DOMAIN r.prods : Len(ProjNames(r, p)) > Len(r.prods[p]) THEN "duplicated"
      ELSE "sender-order")
  ELSE IF Len(Consumed(r)) # Total(r) THEN "foreign-or-duplicate"
  ELSE IF Len(r.seq) # 3 * Len(Consumed(r)) THEN "overlap"
  ELSE IF \E k \in 0..(Len(Consumed(r)) - 1) :
            ~( r.seq[3*k+1][1] = "X" /\ r.seq[3*k+2] = <<"B", r.seq[3*k+1][2]>> /\ r.seq[3*k+3] = <<"E", r.seq[3*k+1][2]>> ) THEN "overlap"
  ELSE ""
Init == i \in 1..Len(Runs) /\ verdict = ""
Judge == /\ verdict = ""
         /\ LET c == RunClass(Runs[i]) IN
            IF c = "" THEN verdict' = "ok" /\ PrintT(<<"ACCEPT", i>>) ELSE verdict' = c /\ PrintT(<<"REJECT", i, c>>)
         /\ UNCHANGED i
Stutter == verdict # "" /\ UNCHANGED <<i, verdict>>
Spec == Init /\ [][Judge \/ Stutter]_<<i, verdict>>
=============================================================================
