SPECIFICATION Spec
CONSTANT NP = 3
CONSTANT M = 2
CONSTANT Micro = 2
INVARIANT PerSenderOrder
INVARIANT NoLossNoDup
INVARIANT NoOverlap
PROPERTY AllConsumed
CHECK_DEADLOCK TRUE
