------------------------------ MODULE TraceC12 ------------------------------
(***************************************************************************)
(* C12: no accepted document or event sequence can crash or wedge a        *)
(* session; failures with an error event assigned by the Recommendation    *)
(* appear as that event on the internal queue.                              *)
(*                                                                         *)
(* The platform operations are total.  Outcome(kind) gives, for every kind  *)
(* of failing (or fine) operation that the F-odd documents contain, the     *)
(* error event that must appear on the internal queue while the step that   *)
(* executes it is processed ("free": at most an error event or a log entry).*)
(*                                                                         *)
(* A recorded run [steps, panic, stall, ended] is a behaviour of the        *)
(* specification iff the session thread did not panic, never stopped        *)
(* responding, every step shows the required error event, every probe       *)
(* event sent after an odd operation was still processed, and the final     *)
(* cancel terminated the session.                                           *)
(***************************************************************************)
EXTENDS Naturals, Sequences, TLC, Json, IOUtils, SequencesExt

Runs == ndJsonDeserialize(IOEnv.TRACES)
VARIABLES i, verdict

Outcome(kind) ==
  CASE kind \in {"ok", "probe"} -> "none"
    [] kind \in {"expr", "badtype", "badtarget", "baddelay", "delay-internal", "cond", "data", "donedata", "invoke-expr"} -> "error.execution"
    [] kind \in {"nosession", "noinvokeid"} -> "error.communication"
    [] kind \in {"noparent", "invoke-fail", "reserved"} -> "free"
    [] OTHER -> "free"

StepOk(st) ==
  LET need == Outcome(st.kind) IN
  /\ need \in {"none", "free"} \/ \E k \in DOMAIN st.enq : st.enq[k] = need
  /\ st.kind = "probe" => st.alive

RunClass(r) ==
  IF r.panic THEN "panic"
  ELSE IF r.stall THEN "stall"
  ELSE IF \E k \in DOMAIN r.steps : ~StepOk(r.steps[k]) THEN
       LET k == CHOOSE x \in DOMAIN r.steps : ~StepOk(r.steps[x]) /\ \A y \in DOMAIN r.steps : ~StepOk(r.steps[y]) => x <= y IN
       IF r.steps[k].kind = "probe" THEN "wedged" ELSE "missing-error"
  ELSE IF ~r.ended THEN "not-cancellable"
  ELSE IF r.processed < r.sent THEN "events-lost"
  ELSE ""

Init == i \in 1..Len(Runs) /\ verdict = ""
Judge == /\ verdict = ""
         /\ LET c == RunClass(Runs[i]) IN
            IF c = "" THEN verdict' = "ok" /\ PrintT(<<"ACCEPT", i>>)
            ELSE verdict' = c /\ PrintT(<<"REJECT", i, c>>)
         /\ UNCHANGED i
Stutter == verdict # "" /\ UNCHANGED <<i, verdict>>
Spec == Init /\ [][Judge \/ Stutter]_<<i, verdict>>
=============================================================================
