SPECIFICATION Spec
CONSTANT Sess = {"A", "B"}
CONSTANT Ids = {"x", "y"}
CONSTANT Delays = {1, 3}
CONSTANT MaxTime = 8
CONSTANT MaxSends = 5
CONSTANT MaxCmds = 9
CONSTANT MapSemantics = FALSE
CONSTANT RecordCmds = TRUE
INVARIANT NoEarly
INVARIANT AtMostOnce
INVARIANT ValueAtExec
INVARIANT DueOrder
INVARIANT CancelPrevents
INVARIANT TerminationDiscards
INVARIANT Accounted
INVARIANT Emit
CHECK_DEADLOCK FALSE
