------------------------------ MODULE TraceC09 ------------------------------
(***************************************************************************)
(* C09 projection "datamodel view of the event and the system variables".  *)
(* Stateless per step; the inputs are steps of recorded runs:              *)
(*   evf  = the seven standard fields of the event being processed as the  *)
(*          tracer saw it (name,type,sendid,origin,origintype,invokeid,    *)
(*          data), obs = the step's observations.                          *)
(*  - a mark tagged "ev" carries what content read from _event.*: it must  *)
(*    equal evf (class "evfield");                                         *)
(*  - a mark tagged "sysb:X" is followed (same step, a later block) by a    *)
(*    mark "sysa:X": in between some content tried to modify system        *)
(*    variable X.  The attempt must have put error.execution on the        *)
(*    internal queue (class "syserr") and the value read back must be      *)
(*    unchanged (class "sysmod").                                          *)
(***************************************************************************)
EXTENDS Naturals, Sequences, TLC, Json, IOUtils, SequencesExt

Traces == ndJsonDeserialize(IOEnv.TRACES)
VARIABLES tr, verdict
T == Traces[tr]

IsPrefixStr(tag, o) == o.k = "mark" /\ o.t = tag
IsErr(o) == o.k = "ienq" /\ o.v = <<"error", "execution">>

\* first class of defect in one step, "" if none
StepClass(st) ==
  LET obs == st.obs
      evbad == \E i \in DOMAIN obs : obs[i].k = "mark" /\ obs[i].t = "ev" /\ obs[i].v # st.evf
      Pairs == { <<i, j>> \in (DOMAIN obs) \X (DOMAIN obs) :
                   /\ i < j /\ obs[i].k = "mark" /\ obs[j].k = "mark"
                   /\ Len(obs[i].t) > 5 /\ SubSeq(obs[i].t, 1, 5) = "sysb:"
                   /\ obs[j].t = "sysa:" \o SubSeq(obs[i].t, 6, Len(obs[i].t))
                   /\ \A m \in (i+1)..(j-1) : ~(obs[m].k = "mark" /\ obs[m].t = obs[j].t) }
      Lone == { i \in DOMAIN obs : obs[i].k = "mark" /\ Len(obs[i].t) > 5 /\ SubSeq(obs[i].t, 1, 5) = "sysb:"
                                   /\ ~\E p \in Pairs : p[1] = i }
  IN IF evbad THEN "evfield"
     ELSE IF \E p \in Pairs : obs[p[1]].v # obs[p[2]].v THEN "sysmod"
     ELSE IF \E p \in Pairs : ~\E m \in (p[1]+1)..(p[2]-1) : IsErr(obs[m]) THEN "syserr"
     ELSE IF Lone # {} THEN "sysshape"
     ELSE ""

Classes == [i \in DOMAIN T.steps |-> StepClass(T.steps[i])]
Init == tr \in 1..Len(Traces) /\ verdict = ""
Judge == /\ verdict = ""
         /\ LET bad == { i \in DOMAIN T.steps : Classes[i] # "" } IN
            IF bad = {} THEN verdict' = "ok" /\ PrintT(<<"ACCEPT", tr>>)
            ELSE /\ \A i \in bad : PrintT(<<"REJECT", tr, i, Classes[i], <<>> >>)
                 /\ verdict' = "bad"
         /\ UNCHANGED tr
Stutter == verdict # "" /\ UNCHANGED <<tr, verdict>>
Spec == Init /\ [][Judge \/ Stutter]_<<tr, verdict>>
=============================================================================
