-------------------------------- MODULE Store --------------------------------
(***************************************************************************)
(* C10, store part: variables, member / index access and the assignment    *)
(* operators '=' and '?=' of the rfsm-expression language                  *)
(* (src/expression_engine/README.md):                                      *)
(*   '='  assigns to an existing writable variable; to an undefined        *)
(*        variable it is an error; to a read-only one it fails;            *)
(*   '?=' creates and initialises a variable (and fails on read-only data);*)
(*   an expression list  e1 ; e2  evaluates left to right on the same      *)
(*   store; reading an undefined variable fails.                           *)
(* The store of the harness: n = 5, s = 'str', t = true, arr = [10,20,30], *)
(* m = {b:1, c:[1,2]}, ro = 9 (read-only).                                 *)
(* For everything the documentation leaves open the specification allows   *)
(* the alternatives explicitly: the result is "U" (not judged) and the     *)
(* store may be unchanged or updated at that place - but nothing else may  *)
(* change.                                                                 *)
(*                                                                         *)
(* TLC enumerates programs (one or two statements and an optional final    *)
(* read) and prints text, expected result and, per variable, the set of    *)
(* allowed values; the engine's result and store dump must comply.         *)
(***************************************************************************)
EXTENDS Naturals, Integers, Sequences, FiniteSets, TLC, SequencesExt
VARIABLE pick
E == INSTANCE Expr WITH K <- 1, OperandIdx <- {1}, OpSet <- {"+"}, NotSet <- {0}, x <- pick

Vars == <<"arr", "m", "n", "ro", "s", "t", "u">>
Absent == [t |-> "absent", i |-> 0, n |-> 0, d |-> 1, s |-> "", a |-> <<>>]
Store0 == [v \in Range(Vars) |->
             CASE v = "n" -> E!VInt(5) [] v = "s" -> E!VStr("str") [] v = "t" -> E!VBool(TRUE)
               [] v = "arr" -> E!VArr(<<E!VInt(10), E!VInt(20), E!VInt(30)>>)
               [] v = "m" -> E!VMap(<<[k |-> "b", v |-> E!VInt(1)], [k |-> "c", v |-> E!VArr(<<E!VInt(1), E!VInt(2)>>)]>>)
               [] v = "ro" -> E!VInt(9) [] OTHER -> Absent]
ReadOnly == {"ro"}

\* ---- r-values: [txt, kind, ...]
RConst(txt, v) == [txt |-> txt, k |-> "const", v |-> v, x |-> "", key |-> "", i |-> 0]
RVar(x)        == [txt |-> x, k |-> "var", v |-> E!VNull, x |-> x, key |-> "", i |-> 0]
RMem(x, key)   == [txt |-> x \o "." \o key, k |-> "mem", v |-> E!VNull, x |-> x, key |-> key, i |-> 0]
RKey(x, key)   == [txt |-> x \o "['" \o key \o "']", k |-> "mem", v |-> E!VNull, x |-> x, key |-> key, i |-> 0]
RIdx(x, i)     == [txt |-> x \o "[" \o ToString(i) \o "]", k |-> "idx", v |-> E!VNull, x |-> x, key |-> "", i |-> i]
RIdxN(x)       == [txt |-> x \o "[n - 4]", k |-> "idx", v |-> E!VNull, x |-> x, key |-> "", i |-> 1]       \* n = 5
RInc(x)        == [txt |-> x \o " + 1", k |-> "inc", v |-> E!VNull, x |-> x, key |-> "", i |-> 0]
RTern(c)       == [txt |-> "{true:'yes', false:'no'}[" \o c \o "]", k |-> "tern", v |-> E!VNull, x |-> c, key |-> "", i |-> 0]

Get(st, r) ==
  CASE r.k = "const" -> r.v
    [] r.k = "var" -> IF st[r.x].t = "absent" THEN E!VFail ELSE st[r.x]
    [] r.k = "inc" -> IF st[r.x].t = "absent" THEN E!VFail ELSE E!Plus(st[r.x], E!VInt(1))
    [] r.k = "mem" -> IF st[r.x].t = "absent" THEN E!VFail
                      ELSE IF st[r.x].t = "map" /\ r.key \in E!MapKeys(st[r.x].a) THEN E!MapGet(st[r.x].a, r.key) ELSE E!VUnk
    [] r.k = "idx" -> IF st[r.x].t = "absent" THEN E!VFail
                      ELSE IF st[r.x].t = "arr" /\ r.i + 1 \in DOMAIN st[r.x].a THEN st[r.x].a[r.i + 1] ELSE E!VUnk
    [] r.k = "tern" -> LET c == IF r.x = "t" THEN st["t"] ELSE IF r.x = "n == 5" THEN E!Eq("==", st["n"], E!VInt(5)) ELSE E!Eq("==", st["n"], E!VInt(6)) IN
                       IF c.t # "bool" THEN E!VUnk ELSE IF c.i = 1 THEN E!VStr("yes") ELSE E!VStr("no")
    [] OTHER -> E!VUnk

Reads == { RConst("7", E!VInt(7)), RConst("'x'", E!VStr("x")), RConst("[1]", E!VArr(<<E!VInt(1)>>)), RConst("null", E!VNull),
           RVar("n"), RVar("s"), RVar("arr"), RVar("m"), RVar("ro"), RVar("u"),
           RMem("m", "b"), RMem("m", "c"), RMem("m", "z"), RKey("m", "b"), RMem("u", "b"),
           RIdx("arr", 0), RIdx("arr", 2), RIdx("arr", 3), RIdxN("arr"), RIdx("u", 0),
           RInc("n"), RInc("ro"), RInc("u"), RTern("t"), RTern("n == 5"), RTern("n == 6") }

\* ---- l-values
LVar(x) == [txt |-> x, k |-> "var", x |-> x, key |-> "", i |-> 0]
LMem(x, key) == [txt |-> x \o "." \o key, k |-> "mem", x |-> x, key |-> key, i |-> 0]
LIdx(x, i) == [txt |-> x \o "[" \o ToString(i) \o "]", k |-> "idx", x |-> x, key |-> "", i |-> i]
Lefts == { LVar("n"), LVar("s"), LVar("arr"), LVar("m"), LVar("ro"), LVar("u"), LMem("m", "b"), LMem("m", "z"), LIdx("arr", 1), LIdx("arr", 7) }

\* a statement: read r, or  l op r
SRead(r) == [txt |-> r.txt, op |-> "", l |-> LVar("n"), r |-> r]
SAsg(l, op, r) == [txt |-> l.txt \o " " \o op \o " " \o r.txt, op |-> op, l |-> l, r |-> r]
AsgRights == { RConst("7", E!VInt(7)), RConst("'x'", E!VStr("x")), RConst("[1]", E!VArr(<<E!VInt(1)>>)), RVar("u"),
               RMem("m", "b"), RIdx("arr", 2), RInc("n") }
\* the statements combined in pairs
Lefts2 == { LVar("n"), LVar("u"), LVar("ro"), LMem("m", "b"), LIdx("arr", 1) }
Rights2 == { RConst("7", E!VInt(7)), RInc("n"), RVar("u") }
Stmts2 == { SAsg(l, op, r) : l \in Lefts2, op \in {"=", "?="}, r \in Rights2 }
Stmts == { SRead(r) : r \in Reads } \cup { SAsg(l, op, r) : l \in Lefts, op \in {"=", "?="}, r \in AsgRights }

\* the set of stores a statement may leave behind, and its result ("unk": not judged)
SetAt(st, l, v) ==
  CASE l.k = "var" -> [st EXCEPT ![l.x] = v]
    [] l.k = "mem" -> IF st[l.x].t = "map" THEN
                        [st EXCEPT ![l.x] = E!VMap(IF l.key \in E!MapKeys(@.a)
                                                   THEN [j \in DOMAIN @.a |-> IF @.a[j].k = l.key THEN [k |-> l.key, v |-> v] ELSE @.a[j]]
                                                   ELSE SortSeq(Append(@.a, [k |-> l.key, v |-> v]), LAMBDA p, q : p.k = "b" \/ (p.k = "c" /\ q.k = "z")))]
                      ELSE st
    [] l.k = "idx" -> IF st[l.x].t = "arr" /\ l.i + 1 \in DOMAIN st[l.x].a
                      THEN [st EXCEPT ![l.x] = E!VArr([@.a EXCEPT ![l.i + 1] = v])] ELSE st
    [] OTHER -> st
Run(st, s) ==     \* -> [res, stores]
  IF s.op = "" THEN [res |-> Get(st, s.r), stores |-> {st}]
  ELSE LET v == Get(st, s.r) IN
       IF v.t = "fail" THEN [res |-> E!VFail, stores |-> {st}]
       ELSE IF v.t = "unk" THEN [res |-> E!VUnk, stores |-> {st, SetAt(st, s.l, v)}]
       ELSE IF s.l.x \in ReadOnly THEN [res |-> E!VFail, stores |-> {st}]
       ELSE IF s.l.k = "var" /\ s.op = "=" THEN
              IF st[s.l.x].t = "absent" THEN [res |-> E!VFail, stores |-> {st}]          \* '=' to an undefined variable is an error
              ELSE [res |-> E!VUnk, stores |-> {SetAt(st, s.l, v)}]
       ELSE IF s.l.k = "var" /\ s.op = "?=" THEN
              IF st[s.l.x].t = "absent" THEN [res |-> E!VUnk, stores |-> {SetAt(st, s.l, v)}]  \* created and initialised
              ELSE [res |-> E!VUnk, stores |-> {st, SetAt(st, s.l, v)}]                   \* exists already: not defined
       ELSE IF st[s.l.x].t = "absent" THEN [res |-> E!VFail, stores |-> {st}]             \* member / element of nothing
       ELSE [res |-> E!VUnk, stores |-> {st, SetAt(st, s.l, v)}]                          \* member / element: not defined

\* a program: s1 [; s2] [; final read]
Finals == { RVar("n"), RVar("u"), RInc("n"), RMem("m", "b"), RIdx("arr", 1), RVar("s") }
NoStmt == [txt |-> "", op |-> "none", l |-> LVar("n"), r |-> RVar("n")]
Init == pick \in [s1 : Stmts, s2 : {NoStmt}, f : Finals \cup {RVar("")}] \cup [s1 : Stmts2, s2 : Stmts2, f : Finals]
Next == UNCHANGED pick
Spec == Init /\ [][Next]_pick

Text(p) == p.s1.txt \o (IF p.s2.op = "none" THEN "" ELSE " ; " \o p.s2.txt) \o (IF p.f.x = "" /\ p.f.k = "var" THEN "" ELSE " ; " \o p.f.txt)
\* all outcomes: sets of [res, store]
Outcomes(p) ==
  LET r1 == Run(Store0, p.s1)
      after1 == { [res |-> r1.res, st |-> st] : st \in r1.stores }
      after2 == IF p.s2.op = "none" THEN after1
                ELSE UNION { LET r2 == Run(o.st, p.s2) IN { [res |-> r2.res, st |-> st] : st \in r2.stores } : o \in after1 }
  IN IF p.f.x = "" /\ p.f.k = "var" THEN after2
     ELSE { [res |-> Get(o.st, p.f), st |-> o.st] : o \in after2 }
EncV(v) == IF v.t = "absent" THEN "-" ELSE E!Enc(v)
\* an expression list that contains a failing expression: what the list returns is not judged unless the last one fails
Emit == LET os == Outcomes(pick) IN
        PrintT(<<"PROG", Text(pick), { <<EncV(o.res), [j \in DOMAIN Vars |-> EncV(o.st[Vars[j]])]>> : o \in os }>>)
=============================================================================
