------------------------------ MODULE TraceC18 ------------------------------
(***************************************************************************)
(* Acceptance of recorded fault-injection outcomes against the protocol of  *)
(* Rfsm.tla.  Each line of IOEnv.TRACES is one experiment on a real image:  *)
(*  reads:  [kind |-> "read", len, cut, outcome]   outcome: "ok"|"err"|"panic" *)
(*          Rfsm!CutIsError: outcome = "err" iff cut < len, never "panic"   *)
(*  writes: [kind |-> "write", mode, same, haserr]                          *)
(*          mode "short": the sink accepted only part of one write call -> *)
(*                        the writer must still emit the complete image     *)
(*          mode "fail":  one write call failed -> the writer's error state *)
(*                        must show it                                      *)
(***************************************************************************)
EXTENDS Naturals, Sequences, TLC, Json, IOUtils
Recs == ndJsonDeserialize(IOEnv.TRACES)
VARIABLES i, verdict
Allowed(r) == IF r.kind = "read" THEN (IF r.cut < r.len THEN r.outcome = "err" ELSE r.outcome = "ok")
              ELSE IF r.mode = "short" THEN r.same /\ ~r.panic
              ELSE r.haserr /\ ~r.panic
Init == i \in 1..Len(Recs) /\ verdict = ""
Judge == /\ verdict = ""
         /\ IF Allowed(Recs[i]) THEN verdict' = "ok" ELSE verdict' = "bad" /\ PrintT(<<"REJECT", i>>)
         /\ UNCHANGED i
Stutter == verdict # "" /\ UNCHANGED <<i, verdict>>
Spec == Init /\ [][Judge \/ Stutter]_<<i, verdict>>
=============================================================================
