SPECIFICATION Spec
CONSTANT Clients = {"c1","c2"}
CONSTANT Plans <- MCPlans
INVARIANT ExactlyAccepted
INVARIANT RepliesTruthful
INVARIANT PerClientOrder
INVARIANT Faithful
CHECK_DEADLOCK FALSE
