------------------------------ MODULE ExprFuzz ------------------------------
(***************************************************************************)
(* C11: every source text, well-formed or not, must make the expression    *)
(* engine terminate with a value or an error.  This module enumerates ALL  *)
(* token sequences up to length L over an adversarial token alphabet       *)
(* (operands incl. 0, MIN, -1, variables bound to Integer / Array / Map /   *)
(* read-only, an undefined name; every operator; every bracket; separators;*)
(* an unterminated string; a non-ASCII identifier; an escape) and prints    *)
(* them; the harness evaluates each text on the standard store.            *)
(* The language-level statement is totality:  Outcome(text) \in {"value",  *)
(* "error"} - see TraceC11.tla for the acceptance of recorded outcomes.    *)
(***************************************************************************)
EXTENDS Naturals, Sequences, TLC, Json, IOUtils

CONSTANTS L
Alphabet == JsonDeserialize(IOEnv.ALPHA)      \* sequence of token strings
VARIABLE s

RECURSIVE Join(_)
Join(q) == IF q = <<>> THEN "" ELSE IF Len(q) = 1 THEN q[1] ELSE q[1] \o " " \o Join(Tail(q))

Seqs == UNION { [1..n -> 1..Len(Alphabet)] : n \in 1..L }
Init == s \in Seqs
Next == UNCHANGED s
Spec == Init /\ [][Next]_s
Emit == PrintT(<<"FUZZ", Join([i \in DOMAIN s |-> Alphabet[s[i]]])>>)
=============================================================================
