-------------------------------- MODULE Http --------------------------------
(* C20: the BasicHTTP event I/O processor.                                                        *)
(*                                                                                                *)
(* Handle(req) is the specification of the request handler (what a POST to /scxml/<sid> answers    *)
(* and what it places in the session's external queue); TraceC20.tla evaluates it on every         *)
(* recorded request.  The state machine below puts the handler into a system of concurrent        *)
(* clients posting sequences of requests to one session and checks that exactly the accepted      *)
(* requests are enqueued, each once, in the order of each client.                                 *)
EXTENDS Naturals, Sequences, FiniteSets, TLC

NameField == "_scxmleventname"
ContentField == "_content"

\* a request: [sid |-> "live" | "unknown" | "text", fields |-> sequence of [k, v]]
HasField(req, f) == \E j \in DOMAIN req.fields : req.fields[j].k = f
FieldVal(req, f) == req.fields[CHOOSE j \in DOMAIN req.fields : req.fields[j].k = f].v
ParamFields(req) == { j \in DOMAIN req.fields : req.fields[j].k \notin {NameField, ContentField} }
\* the data of the event: the remaining fields, or the value of _content when there are none
DataOf(req) == IF ParamFields(req) # {} THEN [kind |-> "map", map |-> { <<req.fields[j].k, req.fields[j].v>> : j \in ParamFields(req) }, text |-> ""]
               ELSE IF HasField(req, ContentField) THEN [kind |-> "text", map |-> {}, text |-> FieldVal(req, ContentField)]
               ELSE [kind |-> "none", map |-> {}, text |-> ""]
Accepted(req) == req.sid = "live" /\ HasField(req, NameField)
Handle(req) == IF Accepted(req) THEN [ok |-> TRUE, name |-> FieldVal(req, NameField), data |-> DataOf(req)]
               ELSE [ok |-> FALSE, name |-> "", data |-> [kind |-> "none", map |-> {}, text |-> ""]]

----------------------------------------------------------------------------
CONSTANTS Clients, Plans      \* Plans: the request sequences a client may post (each request [sid, fields])
VARIABLES plan, pc, queue, replies
vars == <<plan, pc, queue, replies>>

Init == /\ plan \in [Clients -> Plans] /\ pc = [c \in Clients |-> 1]
        /\ queue = <<>> /\ replies = [c \in Clients |-> <<>>]
\* the handler runs under the lock of the session table: answer and enqueue are one step
Post(c) == /\ pc[c] <= Len(plan[c])
           /\ LET req == plan[c][pc[c]]  h == Handle(req) IN
                /\ queue' = IF h.ok THEN Append(queue, [c |-> c, n |-> pc[c], name |-> h.name, data |-> h.data]) ELSE queue
                /\ replies' = [replies EXCEPT ![c] = Append(@, h.ok)]
           /\ pc' = [pc EXCEPT ![c] = @ + 1] /\ UNCHANGED plan
Next == \E c \in Clients : Post(c)
Spec == Init /\ [][Next]_vars

\* exactly the accepted requests already answered are in the queue, once each
ExactlyAccepted == \A c \in Clients : \A n \in 1..(pc[c] - 1) :
                      Cardinality({ j \in DOMAIN queue : queue[j].c = c /\ queue[j].n = n }) = IF Accepted(plan[c][n]) THEN 1 ELSE 0
RepliesTruthful == \A c \in Clients : \A n \in DOMAIN replies[c] : replies[c][n] = Accepted(plan[c][n])
PerClientOrder  == \A j, k \in DOMAIN queue : (j < k /\ queue[j].c = queue[k].c) => queue[j].n < queue[k].n
Faithful        == \A j \in DOMAIN queue : LET req == plan[queue[j].c][queue[j].n] IN
                      queue[j].name = FieldVal(req, NameField) /\ queue[j].data = DataOf(req)
=============================================================================
