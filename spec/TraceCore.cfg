SPECIFICATION Spec
INVARIANT ModelLegal
CHECK_DEADLOCK TRUE
