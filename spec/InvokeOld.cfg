SPECIFICATION Spec
CONSTANT MaxChildEv = 2
CONSTANT MaxEnter = 3
CONSTANT Filter = "invokeid"
INVARIANT InvokeOncePerStableEntry
INVARIANT NothingAfterCancel
INVARIANT DoneInvokeOnceAndLast
CHECK_DEADLOCK FALSE
