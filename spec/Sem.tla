-------------------------------- MODULE Sem --------------------------------
(***************************************************************************)
(* The W3C SCXML interpretation algorithm as pure operators over an        *)
(* abstract document D (a record, see tools/docgen.py) and a session state *)
(*   st = [cfg, hist, iq, obs, running, data, entered]                     *)
(* State ids are 1..D.n in document order; Root = 1.                       *)
(*                                                                         *)
(* The operators are shaped like the implementation (src/fsm.rs): one      *)
(* operator per procedure of the algorithm, same order dependence          *)
(* (addDescendantStatesToEnter / addAncestorStatesToEnter), so that        *)
(* observations of the real code can be compared step by step.             *)
(***************************************************************************)
EXTENDS Naturals, Integers, Sequences, FiniteSets, TLC, SequencesExt, FiniteSetsExt

Root == 1

\* ---------- static structure
States(D) == 1..D.n
Kind(D, s) == D.kind[s]
Parent(D, s) == D.parent[s]
Children(D, s) == D.children[s]       \* sequence, document order, no history states
IsHist(D, s) == Kind(D, s) = "history"
IsFinal(D, s) == Kind(D, s) = "final"
IsParallel(D, s) == Kind(D, s) = "parallel"
IsAtomic(D, s) == Children(D, s) = <<>> /\ ~IsHist(D, s)
IsCompound(D, s) == Kind(D, s) \in {"state", "root"} /\ Children(D, s) # <<>>
IsCompoundOrRoot(D, s) == s = Root \/ IsCompound(D, s)

RECURSIVE AncSeq(_, _)
AncSeq(D, s) == IF Parent(D, s) = 0 THEN <<>> ELSE <<Parent(D, s)>> \o AncSeq(D, Parent(D, s))
AncSet(D, s) == Range(AncSeq(D, s))
IsDesc(D, s, a) == a \in AncSet(D, s)
RECURSIVE TakeUntil(_, _)
TakeUntil(seq, x) == IF seq = <<>> \/ Head(seq) = x THEN <<>> ELSE <<Head(seq)>> \o TakeUntil(Tail(seq), x)
\* getProperAncestors(s, upto): ancestors of s up to but excluding upto (0 = all incl. root)
ProperAnc(D, s, upto) == IF upto # 0 /\ (upto = s \/ IsDesc(D, upto, s)) THEN <<>> ELSE TakeUntil(AncSeq(D, s), upto)

Trans(D, t) == D.trans[t]
InitialT(D, s) == D.init[s]           \* initial transition id (explicit or default), 0 if none

\* ---------- helpers
SortedSeq(S) == SetToSortSeq(S, <)          \* document order = numeric order
RevSortedSeq(S) == Reverse(SortedSeq(S))
RECURSIVE FoldL(_, _, _)
FoldL(f(_, _), acc, q) == IF q = <<>> THEN acc ELSE FoldL(f, f(acc, Head(q)), Tail(q))

\* ---------- effective targets / domain
RECURSIVE EffTargets(_, _, _)
EffTargets(D, hist, t) ==
  LET F(acc, s) == IF IsHist(D, s)
                   THEN IF hist[s] # <<>> THEN acc \cup Range(hist[s])
                        ELSE acc \cup EffTargets(D, hist, D.strans[s][1])
                   ELSE acc \cup {s}
  IN FoldL(F, {}, Trans(D, t).tgt)

FindLCCA(D, src, tset) ==
  LET cands == SelectSeq(AncSeq(D, src), LAMBDA a : IsCompoundOrRoot(D, a) /\ \A s \in tset : IsDesc(D, s, a))
  IN IF cands = <<>> THEN 0 ELSE Head(cands)

Domain(D, hist, t) ==
  LET ts == EffTargets(D, hist, t) src == Trans(D, t).src IN
  IF ts = {} THEN 0
  ELSE IF Trans(D, t).internal /\ IsCompound(D, src) /\ \A s \in ts : IsDesc(D, s, src) THEN src
  ELSE FindLCCA(D, src, ts)

ExitSetOf(D, cfg, hist, tseq) ==
  UNION { IF Trans(D, tseq[i]).tgt = <<>> THEN {}
          ELSE LET dom == Domain(D, hist, tseq[i]) IN { s \in cfg : IsDesc(D, s, dom) } : i \in DOMAIN tseq }

\* ---------- entry set: acc = [enter |-> set, defent |-> set, dhc |-> function parent -> block id]
RECURSIVE AddDesc(_, _, _, _), AddAnc(_, _, _, _, _)
AddDesc(D, hist, acc, s) ==
  IF IsHist(D, s) THEN
     IF hist[s] # <<>> THEN
        LET a1 == FoldL(LAMBDA a, x : AddDesc(D, hist, a, x), acc, hist[s])
        IN FoldL(LAMBDA a, x : AddAnc(D, hist, a, x, Parent(D, s)), a1, hist[s])
     ELSE
        LET dt == D.strans[s][1]
            a0 == [acc EXCEPT !.dhc = [p \in DOMAIN acc.dhc \cup {Parent(D, s)} |->
                                        IF p = Parent(D, s) THEN Trans(D, dt).block ELSE acc.dhc[p]]]
            a1 == FoldL(LAMBDA a, x : AddDesc(D, hist, a, x), a0, Trans(D, dt).tgt)
        IN FoldL(LAMBDA a, x : AddAnc(D, hist, a, x, Parent(D, s)), a1, Trans(D, dt).tgt)
  ELSE
     LET a0 == [acc EXCEPT !.enter = @ \cup {s}] IN
     IF IsCompound(D, s) THEN
        LET a1 == [a0 EXCEPT !.defent = @ \cup {s}]
            it == InitialT(D, s)
        IN IF it = 0 THEN a1
           ELSE LET a2 == FoldL(LAMBDA a, x : AddDesc(D, hist, a, x), a1, Trans(D, it).tgt)
                IN FoldL(LAMBDA a, x : AddAnc(D, hist, a, x, s), a2, Trans(D, it).tgt)
     ELSE IF IsParallel(D, s) THEN
        FoldL(LAMBDA a, c : IF \E x \in a.enter : IsDesc(D, x, c) THEN a ELSE AddDesc(D, hist, a, c), a0, Children(D, s))
     ELSE a0

AddAnc(D, hist, acc, s, upto) ==
  FoldL(LAMBDA a, anc :
            LET a0 == [a EXCEPT !.enter = @ \cup {anc}] IN
            IF IsParallel(D, anc)
            THEN FoldL(LAMBDA b, c : IF \E x \in b.enter : IsDesc(D, x, c) THEN b ELSE AddDesc(D, hist, b, c), a0, Children(D, anc))
            ELSE a0,
          acc, ProperAnc(D, s, upto))

EmptyEntry == [enter |-> {}, defent |-> {}, dhc |-> <<>>]

\* the document root is never reported as entered (the harness strips it from observations)
\* dhist = the history before the exits of this microstep: the domain of a transition is the one its exit set was computed
\* with (the pseudo-code of the Recommendation calls getTransitionDomain again after exitStates has recorded new history
\* values; for a transition from inside a state to that state's own history the second result is smaller than the first
\* and the ancestors exited are not entered again - the configuration would become illegal)
EntrySetD(D, hist, dhist, tseq) ==
  LET r == FoldL(LAMBDA acc, t :
                   LET a1 == FoldL(LAMBDA a, x : AddDesc(D, hist, a, x), acc, Trans(D, t).tgt)
                       dom == Domain(D, dhist, t)
                   IN FoldL(LAMBDA a, x : AddAnc(D, hist, a, x, dom), a1, SortedSeq(EffTargets(D, hist, t))),
                 EmptyEntry, tseq)
  IN [r EXCEPT !.enter = @ \ {Root}]
EntrySet(D, hist, tseq) == EntrySetD(D, hist, hist, tseq)

\* ---------- event matching on token sequences
IsPrefixSeq(p, q) == Len(p) <= Len(q) /\ \A i \in 1..Len(p) : p[i] = q[i]
DescMatches(desc, name) == desc = <<"*">> \/ IsPrefixSeq(desc, name)
NameMatch(descs, name) == \E i \in DOMAIN descs : DescMatches(descs[i], name)

\* ---------- abstract expressions over the integer datamodel
\* A declared data element that has not been assigned yet (late binding) holds NoneVal.
NoneVal == -999999
ValStr(v) == IF v = NoneVal THEN "NONE" ELSE ToString(v)
\* value expression e = [k, n, v]: "const" v | "var" n | "inc" n (n+1) | "in" v (In(state v) as 1/0) | "err"
ExprErr(data, e) == e.k = "err" \/ (e.k \in {"var", "inc"} /\ e.n \notin DOMAIN data)
                    \/ (e.k = "inc" /\ e.n \in DOMAIN data /\ data[e.n] = NoneVal)
ExprVal(cfg, data, e) == CASE e.k = "const" -> e.v
                           [] e.k = "var" -> data[e.n]
                           [] e.k = "inc" -> data[e.n] + 1
                           [] e.k = "in" -> (IF e.v \in cfg THEN 1 ELSE 0)
                           [] OTHER -> 0
\* condition c = [op, s, n, v]: "true" | "false" | "in" s | "notin" s | "lt" n v | "ge" n v | "eq" n v | "err"
CondErr(data, c) == c.op = "err" \/ (c.op \in {"lt", "eq", "ge"} /\ c.n \notin DOMAIN data)
CondVal(cfg, data, c) ==
  CASE c.op = "true" -> TRUE
    [] c.op = "false" -> FALSE
    [] c.op = "in" -> c.s \in cfg
    [] c.op = "notin" -> c.s \notin cfg
    [] c.op = "lt" -> data[c.n] # NoneVal /\ data[c.n] < c.v
    [] c.op = "ge" -> data[c.n] # NoneVal /\ data[c.n] >= c.v
    [] c.op = "eq" -> data[c.n] = c.v
    [] OTHER -> FALSE

\* ---------- transition selection. ev = <<>> for eventless.
\* gv is a function from transition ids to observed guard values (possibly empty): where the
\* implementation's guard value was observed it is used instead of the specification's own value,
\* so that selection can be judged independently of expression evaluation.
GuardTrue(D, cfg, data, gv, t) ==
  IF t \in DOMAIN gv THEN gv[t]
  ELSE ~CondErr(data, Trans(D, t).cond) /\ CondVal(cfg, data, Trans(D, t).cond)

Candidates(D, s) == <<s>> \o AncSeq(D, s)
EventOk(D, ev, t) == IF ev = <<>> THEN Trans(D, t).ev = <<>> ELSE Trans(D, t).ev # <<>> /\ NameMatch(Trans(D, t).ev, ev)
SelectFor(D, cfg, data, gv, ev, s) ==
  LET ts == FoldL(LAMBDA acc, x : acc \o D.strans[x], <<>>, Candidates(D, s))
      ok == SelectSeq(ts, LAMBDA t : EventOk(D, ev, t) /\ GuardTrue(D, cfg, data, gv, t))
  IN IF ok = <<>> THEN 0 ELSE Head(ok)

RemoveConflicts(D, cfg, hist, enabled) ==
  LET Step(filtered, t1) ==
        LET R[i \in 0..Len(filtered)] ==   \* scan filtered left to right: [pre |-> preempted, rm |-> set to remove]
              IF i = 0 THEN [pre |-> FALSE, rm |-> {}]
              ELSE LET p == R[i-1] t2 == filtered[i] IN
                   IF p.pre THEN p
                   ELSE IF ExitSetOf(D, cfg, hist, <<t1>>) \cap ExitSetOf(D, cfg, hist, <<t2>>) # {}
                        THEN IF IsDesc(D, Trans(D, t1).src, Trans(D, t2).src) THEN [p EXCEPT !.rm = @ \cup {t2}]
                             ELSE [p EXCEPT !.pre = TRUE]
                        ELSE p
            r == R[Len(filtered)]
        IN IF r.pre THEN filtered ELSE SelectSeq(filtered, LAMBDA t : t \notin r.rm) \o <<t1>>
  IN FoldL(Step, <<>>, enabled)

Picks(D, cfg, data, gv, ev) ==
  LET atoms == SortedSeq({ s \in cfg : IsAtomic(D, s) })
  IN FoldL(LAMBDA acc, s : LET t == SelectFor(D, cfg, data, gv, ev, s) IN IF t = 0 \/ t \in Range(acc) THEN acc ELSE Append(acc, t), <<>>, atoms)

SelectG(D, cfg, hist, data, gv, ev) == RemoveConflicts(D, cfg, hist, Picks(D, cfg, data, gv, ev))
Select(D, st, ev) == SelectG(D, st.cfg, st.hist, st.data, <<>>, ev)

\* ---------- observations (uniform records so that TLC can compare them)
Obs(k, s, t, v) == [k |-> k, s |-> s, t |-> t, v |-> v]
ObsEnter(s) == Obs("enter", s, "", <<>>)
ObsExit(s) == Obs("exit", s, "", <<>>)
ObsMark(tag, vals) == Obs("mark", 0, tag, vals)
ObsIEnq(ev) == Obs("ienq", 0, "", ev)     \* an event (token sequence) appended to the internal queue

\* append to the internal queue, observably
Enq(st, ev) == [st EXCEPT !.iq = Append(@, ev), !.obs = Append(@, ObsIEnq(ev))]
\* ... with a payload (done.state events carry the evaluated <donedata>): the payload is observed as text "n=v;n2=v2"
EnqP(st, ev, payload) == [st EXCEPT !.iq = Append(@, ev), !.obs = Append(@, Obs("ienq", 0, payload, ev))]

ErrorExecution == <<"error", "execution">>

\* ---------- executable content.  A block is a sequence of instructions
\*   ins = [op, tag, ev, n, e, br, els, blk, arr]
\*   "mark" tag e*      - observable marker; e = sequence of value expressions whose values are recorded
\*   "raise" ev         - append internal event
\*   "assign" n e       - data[n] := e   (n must be declared)
\*   "if" br els        - br = sequence of [c, blk]; els = block id or 0
\*   "foreach" arr n blk- for each v in arr: data[n] := v; run blk      (n gets declared)
\*   "log"/"script" e   - evaluate e
\* Error semantics (C08): an evaluation error appends error.execution and aborts the rest of
\* *this* block (and of the blocks it is nested in, which are part of the same top-level block).
\* r = [st, ok]
RECURSIVE ExecSeq(_, _, _)
ExecIns(D, st, ins) ==
  CASE ins.op = "mark" ->
         IF \E i \in DOMAIN ins.e : ExprErr(st.data, ins.e[i])
         THEN [st |-> Enq(st, ErrorExecution), ok |-> FALSE]
         ELSE [st |-> [st EXCEPT !.obs = Append(@, ObsMark(ins.tag, [i \in DOMAIN ins.e |-> ValStr(ExprVal(st.cfg, st.data, ins.e[i]))]))], ok |-> TRUE]
    [] ins.op = "raise" -> [st |-> Enq(st, ins.ev), ok |-> TRUE]
    [] ins.op = "assign" ->
         IF ins.n \notin DOMAIN st.data \/ ExprErr(st.data, ins.e[1])
         THEN [st |-> Enq(st, ErrorExecution), ok |-> FALSE]
         ELSE [st |-> [st EXCEPT !.data[ins.n] = ExprVal(st.cfg, st.data, ins.e[1])], ok |-> TRUE]
    [] ins.op = "send" ->          \* <send target="#_internal">: static event, or eventexpr = e[1]
         IF ins.e # <<>> /\ ExprErr(st.data, ins.e[1])
         THEN [st |-> Enq(st, ErrorExecution), ok |-> FALSE]
         ELSE [st |-> Enq(st, ins.ev), ok |-> TRUE]
    [] ins.op \in {"log", "script"} ->
         IF ExprErr(st.data, ins.e[1])
         THEN [st |-> Enq(st, ErrorExecution), ok |-> FALSE]
         ELSE [st |-> st, ok |-> TRUE]
    [] ins.op = "if" ->
         LET R[i \in 0..Len(ins.br)] ==    \* scan branches: [st, done, ok]
               IF i = 0 THEN [st |-> st, done |-> FALSE, ok |-> TRUE]
               ELSE LET p == R[i-1] b == ins.br[i] IN
                    IF p.done THEN p
                    ELSE IF CondErr(p.st.data, b.c)
                         THEN [p EXCEPT !.st = Enq(p.st, ErrorExecution)]   \* counts as false
                         ELSE IF CondVal(p.st.cfg, p.st.data, b.c)
                              THEN LET x == ExecSeq(D, p.st, D.blocks[b.blk]) IN [st |-> x.st, done |-> TRUE, ok |-> x.ok]
                              ELSE p
             r == R[Len(ins.br)]
         IN IF r.done \/ ins.els = 0 THEN [st |-> r.st, ok |-> r.ok]
            ELSE ExecSeq(D, r.st, D.blocks[ins.els])
    [] ins.op = "foreach" /\ ins.e # <<>> ->     \* array expression fails or is not a collection
         [st |-> Enq(st, ErrorExecution), ok |-> FALSE]
    [] ins.op = "foreach" ->
         LET R[i \in 0..Len(ins.arr)] ==
               IF i = 0 THEN [st |-> st, ok |-> TRUE]
               ELSE LET p == R[i-1] IN
                    IF ~p.ok THEN p
                    ELSE LET d1 == [x \in DOMAIN p.st.data \cup {ins.n} |-> IF x = ins.n THEN ins.arr[i] ELSE p.st.data[x]]
                         IN ExecSeq(D, [p.st EXCEPT !.data = d1], D.blocks[ins.blk])
         IN R[Len(ins.arr)]
    [] OTHER -> [st |-> st, ok |-> TRUE]

ExecSeq(D, st, q) ==
  IF q = <<>> THEN [st |-> st, ok |-> TRUE]
  ELSE LET r == ExecIns(D, st, Head(q)) IN
       IF r.ok THEN ExecSeq(D, r.st, Tail(q)) ELSE r

ExecBlock(D, st, b) == IF b = 0 THEN st ELSE ExecSeq(D, st, D.blocks[b]).st
ExecBlocks(D, st, bs) == FoldL(LAMBDA s, b : ExecBlock(D, s, b), st, bs)

\* ---------- final states
RECURSIVE InFinalState(_, _, _)
InFinalState(D, cfg, x) ==
  IF IsCompound(D, x) THEN \E c \in Range(Children(D, x)) : IsFinal(D, c) /\ c \in cfg
  ELSE IF IsParallel(D, x) THEN \A c \in Range(Children(D, x)) : InFinalState(D, cfg, c)
  ELSE FALSE

DoneEvent(D, s) == <<"done", "state", D.name[s]>>

\* ---------- exit / enter / microstep
HistoryAfterExit(D, st, ex) ==
  FoldL(LAMBDA h, s :
           FoldL(LAMBDA hh, hs :
                   [hh EXCEPT ![hs] = IF D.htype[hs] = "deep"
                                      THEN SortedSeq({ x \in st.cfg : IsAtomic(D, x) /\ IsDesc(D, x, s) })
                                      ELSE SortedSeq({ x \in st.cfg : Parent(D, x) = s })],
                 h, D.hists[s]),
        st.hist, ex)

ExitStates(D, st, tseq) ==
  LET ex == RevSortedSeq(ExitSetOf(D, st.cfg, st.hist, tseq))
      s1 == [st EXCEPT !.hist = HistoryAfterExit(D, st, ex)]
  IN FoldL(LAMBDA s, x :
               LET a == [s EXCEPT !.obs = Append(@, ObsExit(x))]
                   b == ExecBlocks(D, a, D.onexit[x])
               IN [b EXCEPT !.cfg = @ \ {x}],
             s1, ex)

\* late binding: the data of a state get their values when the state is entered for the first time, before onentry
LateInit(D, s, x) ==
  IF D.binding = "late" /\ x \notin s.entered
  THEN [s EXCEPT !.data = [n \in DOMAIN s.data |->
                             IF \E i \in DOMAIN D.sdata[x] : D.sdata[x][i].n = n
                             THEN (CHOOSE e \in Range(D.sdata[x]) : e.n = n).v ELSE s.data[n]]]
  ELSE s
\* <donedata> of the final state x, evaluated in the data of the moment the final state has been entered
DonePayload(D, st, x) ==
  FoldL(LAMBDA acc, pr : (IF acc = "" THEN "" ELSE acc \o ";") \o pr.n \o "=" \o ValStr(ExprVal(st.cfg, st.data, pr.e)), "", D.donedata[x])
EnterOne(D, es, s, x) ==
  LET a0 == [s EXCEPT !.obs = Append(@, ObsEnter(x)), !.cfg = @ \cup {x}]
      a == [LateInit(D, a0, x) EXCEPT !.entered = @ \cup {x}]
      b == ExecBlocks(D, a, D.onentry[x])
      c == IF x \in es.defent /\ InitialT(D, x) # 0 THEN ExecBlock(D, b, Trans(D, InitialT(D, x)).block) ELSE b
      e == IF x \in DOMAIN es.dhc THEN ExecBlock(D, c, es.dhc[x]) ELSE c
  IN IF IsFinal(D, x)
     THEN IF Parent(D, x) = Root THEN [e EXCEPT !.running = FALSE]
          ELSE LET p == Parent(D, x) g == Parent(D, p)
                   f == EnqP(e, DoneEvent(D, p), DonePayload(D, e, x))
               IN IF g # 0 /\ IsParallel(D, g) /\ \A c2 \in Range(Children(D, g)) : InFinalState(D, f.cfg, c2)
                  THEN Enq(f, DoneEvent(D, g))
                  ELSE f
     ELSE e

EnterStatesD(D, st, dhist, tseq) ==
  LET es == EntrySetD(D, st.hist, dhist, tseq) IN
  \* (a state that is still active - it was not exited in this microstep - is not entered again)
  FoldL(LAMBDA s, x : EnterOne(D, es, s, x), st, SortedSeq(es.enter \ st.cfg))
EnterStates(D, st, tseq) == EnterStatesD(D, st, st.hist, tseq)

Microstep(D, st, tseq) ==
  LET a == ExitStates(D, st, tseq)
      b == FoldL(LAMBDA s, t : ExecBlock(D, s, Trans(D, t).block), a, tseq)
  IN EnterStatesD(D, b, st.hist, tseq)

\* exitInterpreter: every active state in exit order: onexit content, removal (exits are not traced)
ExitInterpreter(D, st) ==
  FoldL(LAMBDA s, x : [ExecBlocks(D, s, D.onexit[x]) EXCEPT !.cfg = @ \ {x}], st, RevSortedSeq(st.cfg))

\* ---------- session state
EmptyHist(D) == [s \in States(D) |-> <<>>]
\* data elements exist from load time: top-level ones (D.vars) with their values, state-level ones (D.sdata) with
\* their values under early binding and unassigned (NoneVal) under late binding
StateVars(D) == UNION { { D.sdata[s][i].n : i \in DOMAIN D.sdata[s] } : s \in States(D) }
InitOf(D, n) == (CHOOSE e \in UNION { Range(D.sdata[s]) : s \in States(D) } : e.n = n).v
Data0(D) == [n \in DOMAIN D.vars \cup StateVars(D) |->
               IF n \in DOMAIN D.vars THEN D.vars[n]
               ELSE IF D.binding = "late" THEN NoneVal ELSE InitOf(D, n)]
St0(D) == [cfg |-> {}, hist |-> EmptyHist(D), iq |-> <<>>, obs |-> <<>>, running |-> TRUE, data |-> Data0(D), entered |-> {}]
Clear(s) == [s EXCEPT !.obs = <<>>]

\* ---------- legal configuration (C01)
Legal(D, cfg) ==
  /\ \A s \in cfg : ~IsHist(D, s)
  /\ Root \notin cfg
  /\ \A s \in cfg : Parent(D, s) = Root \/ Parent(D, s) \in cfg
  /\ Cardinality({ c \in Range(Children(D, Root)) : c \in cfg }) = 1
  /\ \A s \in cfg : IsCompound(D, s) => Cardinality({ c \in Range(Children(D, s)) : c \in cfg }) = 1
  /\ \A s \in cfg : IsParallel(D, s) => \A c \in Range(Children(D, s)) : c \in cfg
  /\ \A s \in cfg : IsAtomic(D, s) \/ IsCompound(D, s) \/ IsParallel(D, s)

\* ---------- document well-formedness (generator sanity)
DocOK(D) ==
  /\ D.kind[Root] = "root" /\ D.parent[Root] = 0
  /\ \A s \in States(D) \ {Root} : D.parent[s] \in States(D) /\ D.parent[s] < s
  /\ \A s \in States(D) : \A i \in DOMAIN D.children[s] : D.parent[D.children[s][i]] = s /\ ~IsHist(D, D.children[s][i])
  /\ \A s \in States(D) : IsHist(D, s) => Len(D.strans[s]) = 1 /\ Trans(D, D.strans[s][1]).tgt # <<>>
  /\ \A s \in States(D) : IsCompoundOrRoot(D, s) => InitialT(D, s) # 0
  /\ \A t \in DOMAIN D.trans : \A i \in DOMAIN D.trans[t].tgt : D.trans[t].tgt[i] \in States(D) \ {Root}
=============================================================================
