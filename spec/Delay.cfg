SPECIFICATION Spec
CONSTANT Sess = {"A", "B"}
CONSTANT Ids = {"x"}
CONSTANT Delays = {1, 3}
CONSTANT MaxTime = 4
CONSTANT MaxSends = 2
CONSTANT MaxCmds = 3
CONSTANT MapSemantics = FALSE
CONSTANT RecordCmds = FALSE
INVARIANT NoEarly
INVARIANT AtMostOnce
INVARIANT ValueAtExec
INVARIANT DueOrder
INVARIANT CancelPrevents
INVARIANT TerminationDiscards
INVARIANT Accounted
PROPERTY CancelIsolated
PROPERTY ExactlyOnce
CHECK_DEADLOCK FALSE
