SPECIFICATION Spec
CONSTANT MaxEv = 3
CONSTANT MaxQ = 1
INVARIANT DocsOK
INVARIANT LegalInv
INVARIANT IdleQuiescent
INVARIANT ExternalOrder
INVARIANT StoppedMeansFinal
INVARIANT HistShape
INVARIANT QueueBound
INVARIANT Emit
CHECK_DEADLOCK TRUE
