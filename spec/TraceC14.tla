------------------------------ MODULE TraceC14 ------------------------------
(***************************************************************************)
(* C14: recorded parent/child runs validated against the invoke life cycle  *)
(* of Invoke.tla (lifted to several <invoke> elements).                     *)
(*                                                                         *)
(* A scenario: inv = the <invoke> elements of the parent document in        *)
(* document order [state, child, id, fwd, fin]; p = the parent's records in *)
(* its program order, [k, a, b]:                                            *)
(*   enter s | exit s | idle | start child | cancel | xr name invokeid |    *)
(*   fin name (content of a <finalize> ran for that event) | sel            *)
(* kids = per started child instance, in start order: [name, recv, final]   *)
(*   recv = names of the external events it received, final = it reached a  *)
(*   top-level final state by itself.                                       *)
(***************************************************************************)
EXTENDS Naturals, Sequences, FiniteSets, TLC, Json, IOUtils, SequencesExt
Scens == ndJsonDeserialize(IOEnv.TRACES)
VARIABLES i, verdict

InvOf(sc, s) == SelectSeq(sc.inv, LAMBDA v : v.state = s)
ById(sc, id) == { k \in DOMAIN sc.inv : sc.inv[k].id = id }

\* ---- fold over the parent's records.
\* acc: run   = set of indices into sc.inv that are running
\*      mac   = records of the current macrostep so far (since the last idle)
\*      owed  = number of cancel records still expected for the last exited state
\*      nstart= number of children started so far
\*      xrs   = for each invoke index the names of external events processed while it ran (autoforward)
\*      dead  = invoke ids cancelled (events with that invokeid must not be processed)
\*      bad   = first defect
Stable(mac, s) == \E j \in DOMAIN mac : mac[j].k = "enter" /\ mac[j].a = s
                                         /\ \A m \in (j+1)..Len(mac) : ~(mac[m].k = "exit" /\ mac[m].a = s)
ExpectedStarts(sc, mac) == LET ks == SelectSeq([k \in DOMAIN sc.inv |-> k], LAMBDA k : Stable(mac, sc.inv[k].state))
                           IN [j \in DOMAIN ks |-> sc.inv[ks[j]].child]
NonOpt(sc, names) == SelectSeq(names, LAMBDA c : ~\E k \in DOMAIN sc.inv : sc.inv[k].child = c /\ sc.inv[k].opt)
ObservedStarts(mac) == LET ss == SelectSeq(mac, LAMBDA r : r.k = "start") IN [j \in DOMAIN ss |-> ss[j].a]

Step(sc, acc, r) ==
  IF acc.bad # "" THEN acc
  ELSE LET a1 == IF acc.owed > 0 /\ r.k # "cancel" THEN [acc EXCEPT !.bad = "no-cancel-on-exit"] ELSE acc IN
  IF a1.bad # "" THEN a1
  ELSE CASE r.k = "idle" ->
              \* an invoke whose arguments fail to evaluate (opt) may be started or not - but never twice
              IF NonOpt(sc, ObservedStarts(a1.mac)) # NonOpt(sc, ExpectedStarts(sc, a1.mac)) THEN [a1 EXCEPT !.bad = "invoke-starts"]
              ELSE IF \E k \in DOMAIN sc.inv : sc.inv[k].opt /\
                        Len(SelectSeq(ObservedStarts(a1.mac), LAMBDA c : c = sc.inv[k].child)) > (IF Stable(a1.mac, sc.inv[k].state) THEN 1 ELSE 0)
                   THEN [a1 EXCEPT !.bad = "invoke-starts"]
              ELSE [a1 EXCEPT !.mac = <<>>]
         [] r.k = "start" ->
              LET ks == { k \in DOMAIN sc.inv : sc.inv[k].child = r.a } IN
              IF ks = {} THEN [a1 EXCEPT !.bad = "unknown-child"]
              ELSE LET k == CHOOSE x \in ks : TRUE IN
                   [a1 EXCEPT !.run = @ \cup {k}, !.mac = Append(@, r), !.nstart = @ + 1,
                              !.xrs = [x \in DOMAIN sc.inv |-> IF x = k THEN <<>> ELSE @[x]],
                              !.inst = [x \in DOMAIN sc.inv |-> IF x = k THEN a1.nstart + 1 ELSE @[x]],
                              !.dead = @ \ {sc.inv[k].id}]
         [] r.k = "exit" ->
              LET mine == { k \in a1.run : sc.inv[k].state = r.a } IN
              [a1 EXCEPT !.owed = Cardinality(mine), !.run = @ \ mine, !.mac = Append(@, r),
                         !.cinst = @ \cup { a1.inst[k] : k \in mine },
                         \* the child had ended (its done.invoke was in the queue) before the host even sent the event whose
                         \* processing now leaves the state: the queue is FIFO, done.invoke had to be processed first
                         !.owed_done = @ \cup { a1.inst[k] : k \in { x \in mine : sc.kids[a1.inst[x]].final /\ sc.kids[a1.inst[x]].tend > 0
                                                                                  /\ a1.last.ts > sc.kids[a1.inst[x]].tend } },
                         !.dead = @ \cup { sc.inv[k].id : k \in mine },
                         !.closed = @ \o SetToSeq({ [inst |-> a1.inst[k], k |-> k, names |-> a1.xrs[k]] : k \in mine })]
         [] r.k = "cancel" ->
              IF a1.owed = 0 THEN [a1 EXCEPT !.bad = "spurious-cancel"] ELSE [a1 EXCEPT !.owed = @ - 1]
         [] r.k = "xr" ->
              IF r.b # "" /\ r.b \in a1.dead THEN [a1 EXCEPT !.bad = "event-after-cancel"]
              ELSE LET isdone == \E k \in a1.run : r.a = "done.invoke." \o sc.inv[k].id
                       dk == { k \in a1.run : r.a = "done.invoke." \o sc.inv[k].id }
                       fwd == [x \in DOMAIN sc.inv |-> IF x \in a1.run /\ x \notin dk THEN Append(a1.xrs[x], r.a) ELSE a1.xrs[x]]
                   IN [a1 EXCEPT !.xrs = fwd, !.run = @ \ dk, !.cur = r, !.last = r, !.finseen = FALSE,
                                 !.dead = @ \cup { sc.inv[k].id : k \in dk },
                                 !.done = @ \o SetToSeq({ a1.inst[k] : k \in dk }),
                                 !.closed = @ \o SetToSeq({ [inst |-> a1.inst[k], k |-> k, names |-> a1.xrs[k]] : k \in dk }),
                                 !.mac = Append(@, r)]
         [] r.k = "fin" -> [a1 EXCEPT !.finseen = TRUE]
         [] r.k = "sel" ->
              \* (whether <finalize> also runs for the platform's done.invoke event is not judged)
              LET want == a1.cur.k = "xr" /\ \E k \in a1.run : sc.inv[k].id = a1.cur.b /\ sc.inv[k].fin
                  isdone == \E x \in DOMAIN sc.inv : a1.cur.a = "done.invoke." \o sc.inv[x].id IN
              IF isdone THEN [a1 EXCEPT !.cur = [k |-> "", a |-> "", b |-> "", ts |-> 0]]
              ELSE IF a1.cur.k = "xr" /\ want /\ ~a1.finseen THEN [a1 EXCEPT !.bad = "finalize-missing"]
              ELSE IF a1.cur.k = "xr" /\ ~want /\ a1.finseen THEN [a1 EXCEPT !.bad = "finalize-spurious"]
              ELSE [a1 EXCEPT !.cur = [k |-> "", a |-> "", b |-> "", ts |-> 0]]
         [] OTHER -> [a1 EXCEPT !.mac = Append(@, r)]

Acc0(sc) == [run |-> {}, mac |-> <<>>, owed |-> 0, nstart |-> 0, xrs |-> [x \in DOMAIN sc.inv |-> <<>>],
             inst |-> [x \in DOMAIN sc.inv |-> 0], dead |-> {}, bad |-> "", cur |-> [k |-> "", a |-> "", b |-> "", ts |-> 0],
             finseen |-> FALSE, done |-> <<>>, closed |-> <<>>, cinst |-> {}, owed_done |-> {}, last |-> [k |-> "", a |-> "", b |-> "", ts |-> 0]]
Fold(sc) == FoldLeft(LAMBDA acc, r : Step(sc, acc, r), Acc0(sc), sc.p)

ScenClass(sc) ==
  LET f == Fold(sc) IN
  IF f.bad # "" THEN f.bad
  ELSE IF f.nstart # Len(sc.kids) THEN "child-count"
  \* done.invoke exactly for the children that reached a final state by themselves and were not cancelled before
  ELSE IF \E n \in DOMAIN sc.kids : sc.kids[n].final /\ ~sc.kids[n].cancelled /\ n \notin f.cinst /\ Cardinality({ j \in DOMAIN f.done : f.done[j] = n }) # 1 THEN "done-invoke-missing"
  ELSE IF \E n \in f.owed_done : ~\E j \in DOMAIN f.done : f.done[j] = n THEN "done-invoke-missing"
  ELSE IF \E n \in DOMAIN sc.kids : ~sc.kids[n].final /\ \E j \in DOMAIN f.done : f.done[j] = n THEN "done-invoke-on-cancel"
  \* autoforward: a forwarding child received exactly the external events the parent processed while it ran
  \* (a child that ended by itself may have missed the last ones)
  ELSE IF \E c \in DOMAIN f.closed : sc.inv[f.closed[c].k].fwd /\
             LET kid == sc.kids[f.closed[c].inst] IN
             IF kid.final THEN ~IsPrefix(kid.recv, f.closed[c].names) ELSE kid.recv # f.closed[c].names THEN "autoforward"
  \* a child without autoforward receives only what the parent sends to it explicitly
  ELSE IF \E c \in DOMAIN f.closed : ~sc.inv[f.closed[c].k].fwd /\
             \E j \in DOMAIN sc.kids[f.closed[c].inst].recv : sc.kids[f.closed[c].inst].recv[j] \notin ToSet(sc.inv[f.closed[c].k].direct) THEN "forwarded-without-autoforward"
  \* data: only declared data receive values
  ELSE IF \E n \in DOMAIN sc.kids : sc.kids[n].a # sc.kids[n].wanta \/ sc.kids[n].hasb THEN "params"
  ELSE ""

Init == i \in 1..Len(Scens) /\ verdict = ""
Judge == /\ verdict = ""
         /\ LET c == ScenClass(Scens[i]) IN
            IF c = "" THEN verdict' = "ok" /\ PrintT(<<"ACCEPT", i>>) ELSE verdict' = c /\ PrintT(<<"REJECT", i, c>>)
         /\ UNCHANGED i
Stutter == verdict # "" /\ UNCHANGED <<i, verdict>>
Spec == Init /\ [][Judge \/ Stutter]_<<i, verdict>>
=============================================================================
