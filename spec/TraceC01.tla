------------------------------ MODULE TraceC01 ------------------------------
(***************************************************************************)
(* C01 projection: the configuration rebuilt from the *observed* enter and *)
(* exit callbacks only.  Independent of which transitions were selected.   *)
(*  - EXIT s requires s active, ENTER s requires s inactive;               *)
(*  - a state stays in the configuration while its own onexit content runs *)
(*    (the implementation removes it afterwards), so marks inside onexit   *)
(*    still see it;                                                        *)
(*  - every configuration snapshot taken by a mark action equals the       *)
(*    rebuilt configuration;                                               *)
(*  - after start-up and after every microstep the configuration is Legal; *)
(*  - the configuration reported at shutdown equals the rebuilt one.       *)
(***************************************************************************)
EXTENDS Sem, Json, IOUtils

Docs == JsonDeserialize(IOEnv.DOCS)
Traces == ndJsonDeserialize(IOEnv.TRACES)

VARIABLES tr, l, cfg, verdict
vars == <<tr, l, cfg, verdict>>
T == Traces[tr]
D == Docs[T.d]

\* fold over the observations of one step: a = [cfg, pend, bad]
ObsStep(a, o) ==
  IF a.bad # "" THEN a
  ELSE IF o.k = "exit" THEN
         LET c1 == a.cfg \ {a.pend} IN
         IF o.s \notin c1 THEN [a EXCEPT !.bad = "exit-inactive"]
         ELSE [cfg |-> c1, pend |-> o.s, bad |-> ""]
  ELSE IF o.k = "enter" THEN
         LET c1 == a.cfg \ {a.pend} IN
         IF o.s \in c1 THEN [a EXCEPT !.bad = "enter-active"]
         ELSE IF o.s \notin States(D) \/ IsHist(D, o.s) THEN [a EXCEPT !.bad = "enter-history"]
         ELSE [cfg |-> c1 \cup {o.s}, pend |-> 0, bad |-> ""]
  ELSE IF o.k = "mark" THEN
         \* marks of the state's own onexit content still see it; later content does not
         IF Range(o.c) = a.cfg THEN a
         ELSE IF Range(o.c) = a.cfg \ {a.pend} THEN [cfg |-> a.cfg \ {a.pend}, pend |-> 0, bad |-> ""]
         ELSE [a EXCEPT !.bad = "snapshot"]
  ELSE a

AfterObs(c, obs) == LET r == FoldL(ObsStep, [cfg |-> c, pend |-> 0, bad |-> ""], obs)
                    IN [cfg |-> r.cfg \ {r.pend}, bad |-> r.bad]

\* exitInterpreter: no callbacks, but the snapshots must shrink from the last configuration
ExitSnapshots(c, obs) ==
  LET ms == SelectSeq(obs, LAMBDA o : o.k = "mark")
  IN \A i \in DOMAIN ms : Range(ms[i].c) \subseteq (IF i = 1 THEN c ELSE Range(ms[i-1].c))

Init == tr \in 1..Len(Traces) /\ l = 1 /\ cfg = {} /\ verdict = ""

Consume ==
  /\ verdict = "" /\ l <= Len(T.steps)
  /\ LET rec == T.steps[l] IN
     IF rec.k \in {"init", "eventless", "internal", "external"} THEN
        LET r == AfterObs(cfg, rec.obs) IN
        IF r.bad # "" THEN /\ PrintT(<<"REJECT", tr, l, r.bad>>) /\ verdict' = r.bad /\ UNCHANGED <<tr, l, cfg>>
        ELSE IF ~Legal(D, r.cfg) THEN /\ PrintT(<<"REJECT", tr, l, "illegal">>) /\ verdict' = "illegal" /\ UNCHANGED <<tr, l, cfg>>
        ELSE cfg' = r.cfg /\ l' = l + 1 /\ UNCHANGED <<tr, verdict>>
     ELSE IF rec.k = "exit" THEN
        IF T.hasfinal /\ Range(T.final) # cfg THEN /\ PrintT(<<"REJECT", tr, l, "final">>) /\ verdict' = "final" /\ UNCHANGED <<tr, l, cfg>>
        ELSE IF ~ExitSnapshots(cfg, rec.obs) THEN /\ PrintT(<<"REJECT", tr, l, "exit-snapshot">>) /\ verdict' = "exit-snapshot" /\ UNCHANGED <<tr, l, cfg>>
        ELSE l' = l + 1 /\ UNCHANGED <<tr, cfg, verdict>>
     ELSE IF rec.k = "malformed" THEN /\ PrintT(<<"REJECT", tr, l, "shape">>) /\ verdict' = "shape" /\ UNCHANGED <<tr, l, cfg>>
     ELSE l' = l + 1 /\ UNCHANGED <<tr, cfg, verdict>>

Finish ==
  /\ verdict = "" /\ l = Len(T.steps) + 1
  /\ verdict' = "ok" /\ PrintT(<<"ACCEPT", tr>>) /\ UNCHANGED <<tr, l, cfg>>

Stutter == verdict # "" /\ UNCHANGED vars
Next == Consume \/ Finish \/ Stutter
Spec == Init /\ [][Next]_vars
=============================================================================
