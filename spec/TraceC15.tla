------------------------------ MODULE TraceC15 ------------------------------
(***************************************************************************)
(* C15: routing of the SCXML Event I/O Processor.                          *)
(*                                                                         *)
(* A platform is a set of sessions [name, sid, parent, invokeid] (parent =  *)
(* name of the invoking session or "", invokeid = id under which the parent *)
(* invoked it).  Dest gives the queue a <send> addresses:                   *)
(*   "internal"        the sender's internal queue                          *)
(*   "self"            (no target) the sender's external queue              *)
(*   "sid"  arg=name   '#_scxml_<sessionid>' the external queue of `arg`    *)
(*   "parent"          '#_parent' the external queue of the invoking session*)
(*   "invokeid" arg=id '#_<invokeid>' the external queue of that child      *)
(* A recorded scenario = sessions, the sends that were executed (known from *)
(* the documents: [sender, form, arg, name, sendid, data]) and everything   *)
(* every session received ([session, name, qtype, sendid, origin,           *)
(* origintype, data], recorded by marks on _event).                         *)
(* It is a behaviour of the specification iff every send was received       *)
(* exactly once, in exactly the addressed queue, with name, sendid and data *)
(* unchanged and an origin/origintype through which the reply (which every  *)
(* receiver of a "req.*" event sends) reaches the original sender; session  *)
(* ids and generated ids are unique.                                        *)
(***************************************************************************)
EXTENDS Naturals, Sequences, FiniteSets, TLC, Json, IOUtils, SequencesExt
Scens == ndJsonDeserialize(IOEnv.TRACES)
VARIABLES i, verdict
ScxmlType == "http://www.w3.org/TR/scxml/#SCXMLEventProcessor"

Sess(sc, n) == CHOOSE s \in Range(sc.sessions) : s.name = n
Dest(sc, snd) ==
  CASE snd.form \in {"internal", "self"} -> snd.sender
    [] snd.form = "sid" -> snd.arg
    [] snd.form = "parent" -> Sess(sc, snd.sender).parent
    [] snd.form = "invokeid" -> (CHOOSE s \in Range(sc.sessions) : s.parent = snd.sender /\ s.invokeid = snd.arg).name
QType(snd) == IF snd.form = "internal" THEN "internal" ELSE "external"

Matches(sc, snd) == { k \in DOMAIN sc.recvs : sc.recvs[k].name = snd.name }
SendClass(sc, snd) ==
  LET ms == Matches(sc, snd) d == Dest(sc, snd) IN
  IF ms = {} THEN "not-delivered"
  ELSE IF \E k \in ms : sc.recvs[k].session # d THEN "wrong-session"
  ELSE IF Cardinality(ms) > 1 THEN "duplicated"
  ELSE LET r == sc.recvs[CHOOSE k \in ms : TRUE] IN
       IF r.qtype # QType(snd) THEN "wrong-queue"
       ELSE IF r.sendid # snd.sendid THEN "sendid-changed"
       ELSE IF r.data # snd.data THEN "data-changed"
       ELSE IF snd.form # "internal" /\ r.origintype # ScxmlType THEN "origintype"
       ELSE IF snd.reply /\ Cardinality({ k \in DOMAIN sc.recvs : sc.recvs[k].name = "reply." \o snd.name /\ sc.recvs[k].session = snd.sender }) # 1
            THEN "reply-not-back"
       ELSE ""
ScenClass(sc) ==
  IF Cardinality({ sc.sessions[k].sid : k \in DOMAIN sc.sessions }) # Len(sc.sessions) THEN "session-id-not-unique"
  ELSE IF Cardinality(Range(sc.genids)) # Len(sc.genids) THEN "generated-id-not-unique"
  ELSE LET bad == { k \in DOMAIN sc.sends : SendClass(sc, sc.sends[k]) # "" } IN
       IF bad = {} THEN "" ELSE SendClass(sc, sc.sends[CHOOSE k \in bad : \A j \in bad : k <= j])
Init == i \in 1..Len(Scens) /\ verdict = ""
Judge == /\ verdict = ""
         /\ LET sc == Scens[i] bad == { k \in DOMAIN sc.sends : SendClass(sc, sc.sends[k]) # "" } IN
            IF ScenClass(sc) = "" THEN verdict' = "ok" /\ PrintT(<<"ACCEPT", i>>)
            ELSE /\ verdict' = "bad"
                 /\ IF bad = {} THEN PrintT(<<"REJECT", i, 0, ScenClass(sc)>>)
                    ELSE \A k \in bad : PrintT(<<"REJECT", i, k, SendClass(sc, sc.sends[k])>>)
         /\ UNCHANGED i
Stutter == verdict # "" /\ UNCHANGED <<i, verdict>>
Spec == Init /\ [][Judge \/ Stutter]_<<i, verdict>>
=============================================================================
