SPECIFICATION Spec
CONSTANT Clients = {"c1"}
CONSTANT Plans = {}
CHECK_DEADLOCK TRUE
