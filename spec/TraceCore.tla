----------------------------- MODULE TraceCore -----------------------------
(***************************************************************************)
(* Trace validation of recorded single-session runs against Sem/Session.   *)
(*                                                                         *)
(* Every line of IOEnv.TRACES is one recorded run: document index, the     *)
(* events the host sent, and the step records the harness grouped from the *)
(* tracer callbacks (init / eventless / internal / idle / external /        *)
(* cancel / exit).  The specification is replayed in lock-step: for each   *)
(* recorded step the corresponding Session action must be enabled in the   *)
(* model state and must produce the recorded observations.  Guard values   *)
(* the code logged (g(k, ..)) are taken from the trace, everything else is *)
(* computed by Sem.  The first difference ends the trace with a REJECT     *)
(* line naming the *class* of the difference; the driver maps classes to   *)
(* properties (C02: enabled/order, C03: rtc-*/xorder/noop, C06: the same   *)
(* as C02 on history documents, C07: ienq/exit/final/afterfinal).          *)
(* All traces are judged in one TLC run (the trace index is chosen in      *)
(* Init); TLC itself never reports an error for a rejected trace.          *)
(***************************************************************************)
EXTENDS Sem, Json, IOUtils

Docs == JsonDeserialize(IOEnv.DOCS)
Traces == ndJsonDeserialize(IOEnv.TRACES)

VARIABLES tr, l, st, pc, xi, verdict
vars == <<tr, l, st, pc, xi, verdict>>

T == Traces[tr]
D == Docs[T.d]

ObsEq(a, b) == a.k = b.k /\ a.s = b.s /\ a.t = b.t /\ a.v = b.v
SeqObsEq(p, q) == Len(p) = Len(q) /\ \A i \in DOMAIN p : ObsEq(p[i], q[i])
Struct(q) == SelectSeq(q, LAMBDA o : o.k # "ienq")
Enqs(q) == SelectSeq(q, LAMBDA o : o.k = "ienq")

GV(g) == [t \in { g[i][1] : i \in DOMAIN g } |-> (LET j == CHOOSE i \in DOMAIN g : g[i][1] = t IN g[j][2])]

Res(s, p, x, cls) == [st |-> s, pc |-> p, xi |-> x, cls |-> cls, info |-> <<>>]
Bad(s, cls) == Res(s, "bad", 0, cls)
BadI(s, cls, info) == [st |-> s, pc |-> "bad", xi |-> 0, cls |-> cls, info |-> info]
\* compact form of expected observations for REJECT lines
Brief(q) == [i \in DOMAIN q |-> <<q[i].k, q[i].s, q[i].t, q[i].v>>]

\* compare the model's observations with the recorded ones
ObsClass(rec, s1) ==
  IF ~SeqObsEq(Struct(rec.obs), Struct(s1.obs)) THEN "order"
  ELSE IF ~SeqObsEq(Enqs(rec.obs), Enqs(s1.obs)) THEN "ienq"
  ELSE IF ~SeqObsEq(rec.obs, s1.obs) THEN "order"     \* interleaving of enqueues and content
  ELSE ""

\* every guard value the code logged must be the value the specification computes for that condition
\* in the pre-step configuration and data (In() predicates, comparisons on data)
GuardsOk(s, g) == \A i \in DOMAIN g :
                    LET c == Trans(D, g[i][1]).cond IN g[i][2] = (~CondErr(s.data, c) /\ CondVal(s.cfg, s.data, c))

AfterSelect(rec, s1, en, nextpc, x) ==
  IF ~GuardsOk(s1, rec.gv) THEN Bad(s1, "guard")
  ELSE IF rec.ts # en THEN BadI(s1, "enabled", en)
  ELSE IF en = <<>> THEN (IF rec.micro \/ rec.obs # <<>> THEN Bad(s1, "noop") ELSE Res(s1, nextpc, x, ""))
  ELSE IF ~rec.micro THEN Bad(s1, "order")
  ELSE LET s2 == Microstep(D, s1, en) c == ObsClass(rec, s2) IN
       IF c # "" THEN BadI(s2, c, Brief(s2.obs)) ELSE Res(s2, nextpc, x, "")

Judge(s, p, x, rec) ==
  IF rec.k = "malformed" THEN Bad(s, "shape")
  ELSE IF p = "macro" /\ ~s.running /\ rec.k # "exit" THEN Bad(s, "afterfinal")
  ELSE
  CASE rec.k = "init" ->
         IF p # "start" THEN Bad(s, "shape")
         ELSE LET s1 == EnterStates(D, Clear(s), <<InitialT(D, Root)>>) c == ObsClass(rec, s1) IN
              IF c # "" THEN BadI(s1, c, Brief(s1.obs)) ELSE Res(s1, "macro", x, "")
    [] rec.k = "eventless" ->
         IF p # "macro" THEN Bad(s, "shape")
         ELSE LET el == SelectG(D, s.cfg, s.hist, s.data, GV(rec.gv), <<>>) IN
              \* (events queued during the selection itself - a guard that failed to evaluate - precede those of the microstep)
              IF el = <<>> THEN Bad(s, "enabled") ELSE AfterSelect(rec, [Clear(s) EXCEPT !.iq = @ \o rec.senq], el, "macro", x)
    [] rec.k = "internal" ->
         IF p # "macro" THEN Bad(s, "shape")
         ELSE IF ~rec.elchk \/ SelectG(D, s.cfg, s.hist, s.data, GV(rec.egv), <<>>) # <<>> THEN Bad(s, "rtc-eventless-first")
         ELSE IF s.iq \o rec.esenq = <<>> THEN Bad(s, "rtc-iq-empty")
         ELSE IF Head(s.iq \o rec.esenq) # rec.ev THEN Bad(s, "rtc-fifo")
         ELSE LET s1 == [Clear(s) EXCEPT !.iq = Tail(s.iq \o rec.esenq) \o rec.senq] IN
              AfterSelect(rec, s1, SelectG(D, s1.cfg, s1.hist, s1.data, GV(rec.gv), rec.ev), "macro", x)
    [] rec.k = "idle" ->
         IF p # "macro" THEN Bad(s, "shape")
         ELSE IF ~rec.elchk \/ SelectG(D, s.cfg, s.hist, s.data, GV(rec.egv), <<>>) # <<>> THEN Bad(s, "rtc-eventless-first")
         ELSE IF s.iq \o rec.esenq # <<>> THEN Bad(s, "rtc-idle-with-iq")
         ELSE Res(s, "idle", x, "")
    [] rec.k = "external" ->
         IF p # "idle" \/ rec.pre # <<>> THEN Bad(s, "shape")
         ELSE IF x >= Len(T.sent) \/ T.sent[x + 1] # rec.ev THEN Bad(s, "xorder")
         ELSE AfterSelect(rec, [Clear(s) EXCEPT !.iq = @ \o rec.senq], SelectG(D, s.cfg, s.hist, s.data, GV(rec.gv), rec.ev), "macro", x + 1)
    [] rec.k = "cancel" ->
         IF p # "idle" THEN Bad(s, "shape")
         ELSE IF x # Len(T.sent) THEN Bad(s, "xorder")
         ELSE Res([Clear(s) EXCEPT !.running = FALSE], "exit", x, "")
    [] rec.k = "exit" ->
         IF ~((p = "macro" /\ ~s.running) \/ p = "exit") THEN Bad(s, "shape")
         ELSE LET s1 == ExitInterpreter(D, Clear(s)) IN
              IF ~SeqObsEq(Struct(rec.obs), Struct(s1.obs)) THEN Bad(s1, "exit")
              ELSE IF T.hasfinal /\ T.final # SortedSeq(s.cfg) THEN Bad(s1, "final")
              ELSE Res(s1, "done", x, "")
    [] OTHER -> Bad(s, "shape")

Init == /\ tr \in 1..Len(Traces) /\ l = 1 /\ st = St0(Docs[Traces[tr].d]) /\ pc = "start" /\ xi = 0 /\ verdict = ""

Consume ==
  /\ verdict = "" /\ l <= Len(T.steps)
  /\ LET r == Judge(st, pc, xi, T.steps[l]) IN
     IF r.cls = ""
     THEN /\ st' = r.st /\ pc' = r.pc /\ xi' = r.xi /\ l' = l + 1 /\ UNCHANGED <<tr, verdict>>
     ELSE /\ PrintT(<<"REJECT", tr, l, r.cls, r.info>>)
          /\ verdict' = r.cls /\ UNCHANGED <<tr, l, st, pc, xi>>

Finish ==
  /\ verdict = "" /\ l = Len(T.steps) + 1
  /\ IF pc = "done" THEN verdict' = "ok" /\ PrintT(<<"ACCEPT", tr>>)
     ELSE verdict' = "trunc" /\ PrintT(<<"REJECT", tr, l, "trunc", <<>> >>)
  /\ UNCHANGED <<tr, l, st, pc, xi>>

Stutter == verdict # "" /\ UNCHANGED vars

Next == Consume \/ Finish \/ Stutter
Spec == Init /\ [][Next]_vars

\* the model state itself stays legal while it follows an accepted trace prefix
ModelLegal == (verdict = "" /\ pc \in {"macro", "idle"}) => Legal(D, st.cfg)
=============================================================================
