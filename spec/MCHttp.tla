------------------------------- MODULE MCHttp -------------------------------
EXTENDS Http
F(k, v) == [k |-> k, v |-> v]
Reqs == { [sid |-> "live", fields |-> <<F(NameField, "e")>>],
          [sid |-> "live", fields |-> <<F("p", "1"), F(NameField, "e"), F("q", "2")>>],
          [sid |-> "live", fields |-> <<F(NameField, "e"), F(ContentField, "c")>>],
          [sid |-> "live", fields |-> <<F("p", "1")>>],
          [sid |-> "live", fields |-> <<>>],
          [sid |-> "unknown", fields |-> <<F(NameField, "e")>>],
          [sid |-> "text", fields |-> <<F(NameField, "e"), F("p", "1")>>] }
MCPlans == { <<a, b>> : a \in Reqs, b \in Reqs }
=============================================================================
