SPECIFICATION Spec
CONSTANT MaxFields = 4
CONSTANT MaxSize = 3
INVARIANT CutIsError
CHECK_DEADLOCK TRUE
INVARIANT RoundTrip
INVARIANT Aligned
INVARIANT Minimal
