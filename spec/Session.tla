------------------------------ MODULE Session ------------------------------
(***************************************************************************)
(* One SCXML session as a state machine whose actions are the steps of the *)
(* implementation's main event loop (Fsm::interpret / mainEventLoop):      *)
(*   Start          interpret(): enter the initial configuration           *)
(*   EventlessStep  microstep for enabled eventless transitions            *)
(*   InternalStep   dequeue oldest internal event, select, microstep       *)
(*   GoIdle         macrostep done: block on the external queue            *)
(*   HostSend       environment: append an event to the external queue     *)
(*   ExternalStep   dequeue external event, select, microstep              *)
(*   Exit           exitInterpreter() after running became false           *)
(* The documents come from a JSON file (IOEnv.DOCS); which document is     *)
(* explored is part of the initial state.                                  *)
(***************************************************************************)
EXTENDS Sem, Json, IOUtils

Docs == JsonDeserialize(IOEnv.DOCS)
ND == Len(Docs)

CONSTANT MaxEv,      \* bound on the number of external events sent by the host
         MaxQ        \* bound on the length of the external queue (events sent ahead of processing)

VARIABLES d,         \* document index
          st,        \* session state (Sem.St0 shape)
          pc,        \* "start" | "macro" | "idle" | "exit" | "done"
          xq,        \* external queue (sequence of event names = token sequences)
          sent,      \* all events sent so far by the host, in order
          took       \* number of external events consumed
vars == <<d, st, pc, xq, sent, took>>

D == Docs[d]
Alphabet == Range(D.alphabet)

Init == /\ d \in 1..ND /\ st = St0(Docs[d]) /\ pc = "start" /\ xq = <<>> /\ sent = <<>> /\ took = 0

Start == /\ pc = "start"
         /\ st' = EnterStates(D, Clear(st), <<InitialT(D, Root)>>)
         /\ pc' = "macro" /\ UNCHANGED <<d, xq, sent, took>>

EventlessStep ==
  /\ pc = "macro" /\ st.running
  /\ LET el == Select(D, st, <<>>) IN
     /\ el # <<>>
     /\ st' = Microstep(D, Clear(st), el)
  /\ UNCHANGED <<d, pc, xq, sent, took>>

InternalStep ==
  /\ pc = "macro" /\ st.running
  /\ Select(D, st, <<>>) = <<>> /\ st.iq # <<>>
  /\ LET ev == Head(st.iq) s1 == [Clear(st) EXCEPT !.iq = Tail(@)]
         en == Select(D, s1, ev) IN
     st' = IF en = <<>> THEN s1 ELSE Microstep(D, s1, en)
  /\ UNCHANGED <<d, pc, xq, sent, took>>

GoIdle ==
  /\ pc = "macro" /\ st.running
  /\ Select(D, st, <<>>) = <<>> /\ st.iq = <<>>
  /\ pc' = "idle" /\ UNCHANGED <<d, st, xq, sent, took>>

Finish ==
  /\ pc \in {"macro"} /\ ~st.running
  /\ pc' = "exit" /\ UNCHANGED <<d, st, xq, sent, took>>

\* the host may send at any time, also while a macrostep is in progress
HostSend ==
  /\ pc \in {"start", "macro", "idle"}
  /\ Len(sent) < MaxEv
  /\ (pc = "idle" /\ xq = <<>>) \/ Len(xq) < MaxQ
  /\ \E ev \in Alphabet : xq' = Append(xq, ev) /\ sent' = Append(sent, ev)
  /\ UNCHANGED <<d, st, pc, took>>

ExternalStep ==
  /\ pc = "idle" /\ xq # <<>>
  /\ LET ev == Head(xq) en == Select(D, Clear(st), ev) IN
     st' = IF en = <<>> THEN Clear(st) ELSE Microstep(D, Clear(st), en)
  /\ xq' = Tail(xq) /\ took' = took + 1 /\ pc' = "macro"
  /\ UNCHANGED <<d, sent>>

\* the platform cancel event: only when the host has nothing more to send (keeps the model small)
Cancel ==
  /\ pc = "idle" /\ xq = <<>> /\ Len(sent) = MaxEv
  /\ st' = [Clear(st) EXCEPT !.running = FALSE] /\ pc' = "exit"
  /\ UNCHANGED <<d, xq, sent, took>>

Exit ==
  /\ pc = "exit"
  /\ st' = ExitInterpreter(D, Clear(st)) /\ pc' = "done"
  /\ UNCHANGED <<d, xq, sent, took>>

Done == pc = "done" /\ UNCHANGED vars

Next == Start \/ EventlessStep \/ InternalStep \/ GoIdle \/ Finish \/ HostSend \/ ExternalStep \/ Cancel \/ Exit \/ Done
Spec == Init /\ [][Next]_vars

----------------------------------------------------------------------------
\* Design-level properties

\* C01: the configuration is legal whenever a microstep is not in progress
LegalInv == pc \in {"macro", "idle"} => Legal(D, st.cfg)

\* C03: idle only when quiescent
IdleQuiescent == pc = "idle" => st.iq = <<>> /\ Select(D, st, <<>>) = <<>>

\* C03: external events are consumed in arrival order, each once
ExternalOrder == took + Len(xq) = Len(sent) /\ xq = SubSeq(sent, took + 1, Len(sent))

\* C07: after a top-level final nothing but Exit happens
StoppedMeansFinal == (pc = "done") => st.cfg = {}

\* C06: a recorded history value only contains states of the right kind
HistShape == \A h \in States(D) : IsHist(D, h) =>
               \A i \in DOMAIN st.hist[h] :
                  IF D.htype[h] = "deep" THEN IsAtomic(D, st.hist[h][i]) /\ IsDesc(D, st.hist[h][i], Parent(D, h))
                  ELSE Parent(D, st.hist[h][i]) = Parent(D, h)

DocsOK == DocOK(D)

\* the macrostep terminates within the bound (documents with unbounded eventless loops are generator bugs)
\* -- checked by the state constraint of the config: Len(st.iq) stays small
QueueBound == Len(st.iq) <= 60

\* One REPLAY line per maximal behaviour: document and the external events sent
Emit == (pc = "done") => PrintT(<<"REPLAY", d, sent>>)
=============================================================================
