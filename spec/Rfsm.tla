-------------------------------- MODULE Rfsm --------------------------------
(***************************************************************************)
(* The binary .rfsm wire format for primitives (C05) and the reader /       *)
(* writer protocol under faults (C18).                                      *)
(*                                                                         *)
(* Unsigned integers: one type nibble selected by magnitude followed by the *)
(* value's nibbles, big-endian, padded to the width of the class            *)
(*   class k:  type nibble 3..B,  payload width 1,3,5,..,15,17 nibbles      *)
(* (the last class holds 64-bit values in 17 nibbles, i.e. 8 bytes after    *)
(* the type byte whose low nibble is 0).                                    *)
(* Strings: byte length < 16: type C + length nibble; < 4096: type D + 12   *)
(* bit length; longer strings have no encoding ("unrepresentable").         *)
(*                                                                         *)
(* Values are nibble sequences because TLC integers are 32 bit.            *)
(***************************************************************************)
EXTENDS Naturals, Sequences, FiniteSets, TLC, SequencesExt, Json

HexDigit == <<"0","1","2","3","4","5","6","7","8","9","a","b","c","d","e","f">>
RECURSIVE HexOf(_)
HexOf(q) == IF q = <<>> THEN "" ELSE HexDigit[q[1] + 1] \o HexOf(Tail(q))

Width == <<1, 3, 5, 7, 9, 11, 13, 15, 17>>
TypeNibble == <<3, 4, 5, 6, 7, 8, 9, 10, 11>>
Zeros(n) == [i \in 1..n |-> 0]

RECURSIVE Strip(_)
Strip(q) == IF Len(q) > 1 /\ q[1] = 0 THEN Strip(Tail(q)) ELSE q

ClassOf(x) == CHOOSE k \in 1..9 : Width[k] >= Len(x) /\ \A j \in 1..9 : Width[j] >= Len(x) => k <= j
EncUint(x) == LET k == ClassOf(x) IN <<TypeNibble[k]>> \o Zeros(Width[k] - Len(x)) \o x
\* decoder: returns [v |-> value nibbles, rest |-> remaining nibbles, ok |-> BOOLEAN]
DecUint(img) ==
  IF img = <<>> \/ img[1] \notin Range(TypeNibble) THEN [v |-> <<0>>, rest |-> img, ok |-> FALSE]
  ELSE LET k == CHOOSE j \in 1..9 : TypeNibble[j] = img[1] IN
       IF Len(img) < Width[k] + 1 THEN [v |-> <<0>>, rest |-> <<>>, ok |-> FALSE]
       ELSE [v |-> Strip(SubSeq(img, 2, Width[k] + 1)), rest |-> SubSeq(img, Width[k] + 2, Len(img)), ok |-> TRUE]

\* ---------- test vectors: boundary values and irregular nibble patterns for every width 1..16
Pat(n) ==
  { [i \in 1..n |-> 15],                                        \* all ones
    [i \in 1..n |-> IF i = 1 THEN 1 ELSE 0],                    \* smallest value of this width
    [i \in 1..n |-> IF i = 1 THEN 1 ELSE IF i = n THEN 1 ELSE 0],
    [i \in 1..n |-> ((i - 1) % 15) + 1],                        \* 1 2 3 4 ...
    [i \in 1..n |-> IF i % 2 = 1 THEN 10 ELSE 5],               \* a5a5...
    [i \in 1..n |-> IF i = n THEN 14 ELSE 15] }                 \* max - 1
  \cup { [i \in 1..n |-> IF i = 1 THEN 8 ELSE IF i = p THEN 7 ELSE 0] : p \in 2..n }
Vectors == {<<0>>} \cup UNION { Pat(n) : n \in 1..16 }

\* every value survives Enc ; Dec exactly (also when followed by further data)
RoundTrip == \A x \in Vectors : LET d == DecUint(EncUint(x) \o <<3, 1>>) IN d.ok /\ d.v = x /\ d.rest = <<3, 1>>
\* the encoding is byte aligned and minimal
Aligned == \A x \in Vectors : Len(EncUint(x)) % 2 = 0
Minimal == \A x \in Vectors : \A k \in 1..9 : Width[k] >= Len(x) => Len(EncUint(x)) <= Width[k] + 1

\* ---------- strings
StrLens == {0, 1, 15, 16, 17, 255, 256, 1000, 4094, 4095, 4096, 5000, 70000}
CharBytes == [ascii |-> 1, latin |-> 2, cjk |-> 3, astral |-> 4]
Representable(bytes) == bytes < 4096
StrHeader(bytes) == IF bytes < 16 THEN <<12, bytes>>
                    ELSE <<13, bytes \div 256, (bytes \div 16) % 16, bytes % 16>>

\* ---------- reader / writer protocol under faults (C18), abstractly:
\* an image is a sequence of fields, field f occupies Size[f] bytes; the stream ends after `cut` bytes
CONSTANTS MaxFields, MaxSize
VARIABLES sizes, cut, pos, consumed, err, done
vars == <<sizes, cut, pos, consumed, err, done>>
Total(sz) == FoldLeft(LAMBDA a, b : a + b, 0, sz)
Init == /\ sizes \in UNION { [1..n -> 1..MaxSize] : n \in 1..MaxFields }
        /\ cut \in 0..(MaxFields * MaxSize)
        /\ cut <= Total(sizes)
        /\ pos = 1 /\ consumed = 0 /\ err = FALSE /\ done = FALSE
ReadField == /\ ~done /\ pos <= Len(sizes)
             /\ IF ~err /\ consumed + sizes[pos] <= cut
                THEN consumed' = consumed + sizes[pos] /\ err' = err
                ELSE consumed' = consumed /\ err' = TRUE            \* a failed read latches the error flag
             /\ pos' = pos + 1 /\ UNCHANGED <<sizes, cut, done>>
Finish == ~done /\ pos > Len(sizes) /\ done' = TRUE /\ UNCHANGED <<sizes, cut, pos, consumed, err>>
Stutter == done /\ UNCHANGED vars
Spec == Init /\ [][ReadField \/ Finish \/ Stutter]_vars
Result == IF err THEN "Err" ELSE "Ok"
\* a truncated image is never reported as success; a complete one is
CutIsError == done => (Result = "Err" <=> cut < Total(sizes))

\* ---------------- data values (write_data / read_data): a tag byte, then the payload
\*   0 null | 1 integer (decimal text) | 2 double (text) | 3 string | 4 boolean | 5 array (count, elements)
\*   6 map (count, key / value pairs) | 7 error (text) | 8 source (text, source id) | 9 none
DV(t, s, i, a) == [t |-> t, s |-> s, i |-> i, a |-> a]
Ent(k, v) == DV("ent", k, 0, <<v>>)      \* a map entry
Tag(v) == CASE v.t = "null" -> 0 [] v.t = "int" -> 1 [] v.t = "dbl" -> 2 [] v.t = "str" -> 3 [] v.t = "bool" -> 4
            [] v.t = "arr" -> 5 [] v.t = "map" -> 6 [] v.t = "err" -> 7 [] v.t = "src" -> 8 [] OTHER -> 9
Atoms == { DV("null", "", 0, <<>>), DV("none", "", 0, <<>>), DV("int", "0", 0, <<>>), DV("int", "-1", 0, <<>>),
           DV("int", "9223372036854775807", 0, <<>>), DV("int", "-9223372036854775808", 0, <<>>),
           DV("dbl", "0.5", 0, <<>>), DV("dbl", "-0", 0, <<>>), DV("dbl", "1e300", 0, <<>>), DV("dbl", "5e-324", 0, <<>>),
           DV("dbl", "inf", 0, <<>>), DV("dbl", "0.1", 0, <<>>),
           DV("str", "", 0, <<>>), DV("str", "text with 16+ bytes é日", 0, <<>>), DV("bool", "true", 0, <<>>), DV("bool", "false", 0, <<>>),
           DV("err", "some error", 0, <<>>), DV("src", "x + 1", 0, <<>>), DV("src", "In('s')", 4711, <<>>), DV("src", "", 16, <<>>) }
Few == { DV("int", "-1", 0, <<>>), DV("str", "", 0, <<>>), DV("bool", "false", 0, <<>>), DV("null", "", 0, <<>>), DV("src", "In('s')", 4711, <<>>) }
Arrays1 == { DV("arr", "", 0, q) : q \in UNION { [1..n -> Few] : n \in 0..2 } }
Maps1 == { DV("map", "", 0, <<>>) } \cup { DV("map", "", 0, <<Ent("k", v)>>) : v \in Few }
           \cup { DV("map", "", 0, <<Ent("a", v), Ent("b b", w)>>) : v \in Few, w \in {DV("int", "-1", 0, <<>>), DV("null", "", 0, <<>>)} }
Nested == { DV("arr", "", 0, <<x, y>>) : x \in {DV("arr", "", 0, <<>>), DV("map", "", 0, <<Ent("k", DV("int", "-1", 0, <<>>))>>)},
                                           y \in {DV("arr", "", 0, <<DV("str", "", 0, <<>>)>>), DV("bool", "false", 0, <<>>)} }
          \cup { DV("map", "", 0, <<Ent("m", DV("map", "", 0, <<Ent("n", DV("arr", "", 0, <<DV("null", "", 0, <<>>)>>))>>))>>) }
DataVals == Atoms \cup Arrays1 \cup Maps1 \cup Nested

\* abstract wire form: tag, then tokens <<"S", text>>, <<"U", number>>, <<"B", text>>
RECURSIVE EncData(_)
EncData(v) ==
  <<Tag(v)>> \o
  CASE v.t \in {"int", "dbl", "str", "err"} -> <<<<"S", v.s>>>>
    [] v.t = "bool" -> <<<<"B", v.s>>>>
    [] v.t = "src" -> <<<<"S", v.s>>, <<"U", v.i>>>>
    [] v.t = "arr" -> <<<<"U", Len(v.a)>>>> \o FoldLeft(LAMBDA acc, x : acc \o EncData(x), <<>>, v.a)
    [] v.t = "map" -> <<<<"U", Len(v.a)>>>> \o FoldLeft(LAMBDA acc, kv : acc \o <<<<"S", kv.s>>>> \o EncData(kv.a[1]), <<>>, v.a)
    [] OTHER -> <<>>
TypeOfTag == <<"int", "dbl", "str", "bool", "arr", "map", "err", "src", "none">>
RECURSIVE DecData(_)
RECURSIVE DecMany(_, _, _)
RECURSIVE DecPairs(_, _, _)
DecMany(img, n, acc) == IF n = 0 THEN [v |-> acc, rest |-> img]
                        ELSE LET d == DecData(img) IN DecMany(d.rest, n - 1, Append(acc, d.v))
DecPairs(img, n, acc) == IF n = 0 THEN [v |-> acc, rest |-> img]
                         ELSE LET d == DecData(Tail(img)) IN DecPairs(d.rest, n - 1, Append(acc, Ent(img[1][2], d.v)))
DecData(img) ==
  LET tag == img[1] t == IF tag = 0 THEN "null" ELSE TypeOfTag[tag] r == Tail(img) IN
  CASE t \in {"int", "dbl", "str", "err"} -> [v |-> DV(t, r[1][2], 0, <<>>), rest |-> Tail(r)]
    [] t = "bool" -> [v |-> DV(t, r[1][2], 0, <<>>), rest |-> Tail(r)]
    [] t = "src" -> [v |-> DV(t, r[1][2], r[2][2], <<>>), rest |-> Tail(Tail(r))]
    [] t = "arr" -> LET m == DecMany(Tail(r), r[1][2], <<>>) IN [v |-> DV(t, "", 0, m.v), rest |-> m.rest]
    [] t = "map" -> LET m == DecPairs(Tail(r), r[1][2], <<>>) IN [v |-> DV(t, "", 0, m.v), rest |-> m.rest]
    [] OTHER -> [v |-> DV(t, "", 0, <<>>), rest |-> r]
DataRoundTrip == \A v \in DataVals : LET d == DecData(EncData(v) \o <<99>>) IN d.v = v /\ d.rest = <<99>>

Emit == /\ \A v \in DataVals : PrintT(<<"VEC", "data", ToJson(v), Tag(v)>>)
        /\ \A x \in Vectors : PrintT(<<"VEC", "uint", HexOf(x), HexOf(EncUint(x))>>)
        /\ \A n \in StrLens : \A c \in DOMAIN CharBytes :
             PrintT(<<"VEC", "str", n, c, Representable(n * CharBytes[c]), HexOf(StrHeader(IF n * CharBytes[c] < 4096 THEN n * CharBytes[c] ELSE 0))>>)
=============================================================================
