SPECIFICATION Spec
CONSTANT MaxGen = 1
CONSTANT MaxCmds = 4
CONSTANT MaxTime = 2
CONSTANT Delays = {1}
CONSTANT Cascade = TRUE
CONSTANT DiscardTimers = TRUE
CONSTANT AtomicExit = TRUE
CONSTANT RecordCmds = FALSE
INVARIANT NoOrphan
PROPERTY OrphansEnd
PROPERTY QueuesDrain
CHECK_DEADLOCK FALSE
