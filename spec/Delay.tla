------------------------------- MODULE Delay -------------------------------
(* C16: delayed <send>, <cancel> and session termination.                                         *)
(*                                                                                                *)
(* Every session owns a timer.  A delayed send evaluates its arguments when it executes and arms  *)
(* the timer; the timer delivers pending events in due order (it may be late, never early);       *)
(* <cancel> removes the pending sends with that id of the same session; a terminating session     *)
(* takes its pending sends with it.  Time is counted in half ticks: the commands of the host are   *)
(* issued at even times, delays are odd, so that "before / after the due time" is unambiguous.    *)
(*                                                                                                *)
(* MapSemantics = TRUE describes what the implementation did before the repair (one timer guard   *)
(* per send id: arming a second send with the same id drops - i.e. cancels - the first, and the   *)
(* firing of one send forgets the guard stored under its id, whatever send that guard belongs to);*)
(* TLC refutes ExactlyOnce for it, the counterexample is the scenario "same-id-twice" of the check.*)
EXTENDS Naturals, Sequences, FiniteSets, TLC, Json

CONSTANTS Sess, Ids, Delays, MaxTime, MaxSends, MaxCmds, MapSemantics,
          RecordCmds  \* TRUE only in simulation mode (the command history multiplies states without adding behaviour)

VARIABLES now,      \* half ticks
          pend,     \* set of armed timers [inst, sess, id, due, val, tgt]
          hist,     \* sequence (by instance number) of executed sends [sess, id, at, d, val, tgt]
          inbox,    \* sequence of deliveries [inst, at, val, to, senderAlive]
          alive,    \* [Sess -> BOOLEAN]
          x,        \* [Sess -> 0..1]  the datum the sends carry
          cancelled,\* instances removed by <cancel> while pending
          dropped,  \* instances lost by termination of their session
          cmds,     \* the host's commands in order (replayed in the implementation; only if RecordCmds)
          ncmd, last \* number of commands, the last command
vars == <<now, pend, hist, inbox, alive, x, cancelled, dropped, cmds, ncmd, last>>

NoId == ""
Init == /\ now = 0 /\ pend = {} /\ hist = <<>> /\ inbox = <<>> /\ alive = [s \in Sess |-> TRUE]
        /\ x = [s \in Sess |-> 0] /\ cancelled = {} /\ dropped = {} /\ cmds = <<>> /\ ncmd = 0 /\ last = [op |-> "", s |-> "", id |-> ""]

CmdTime == now % 2 = 0 /\ ncmd < MaxCmds
Cmd(op, s, id, d, tgt) == /\ cmds' = IF RecordCmds THEN Append(cmds, [op |-> op, s |-> s, id |-> id, d |-> d, tgt |-> tgt, t |-> now]) ELSE cmds
                          /\ ncmd' = ncmd + 1 /\ last' = [op |-> op, s |-> s, id |-> id]

Send(s, id, d, tgt) ==
  /\ CmdTime /\ alive[s] /\ Len(hist) < MaxSends /\ now + d <= MaxTime
  /\ LET inst == Len(hist) + 1
         p == [inst |-> inst, sess |-> s, id |-> id, due |-> now + d, val |-> x[s], tgt |-> tgt]
         \* MapSemantics: the guard stored under the same id is dropped, which disarms that timer
         lost == IF MapSemantics /\ id # NoId THEN { q \in pend : q.sess = s /\ q.id = id } ELSE {}
     IN /\ pend' = (pend \ lost) \cup {p}
        /\ hist' = Append(hist, [sess |-> s, id |-> id, at |-> now, d |-> d, val |-> x[s], tgt |-> tgt])
        /\ cancelled' = cancelled \cup { q.inst : q \in lost }
  /\ Cmd("send", s, id, d, tgt)
  /\ UNCHANGED <<now, inbox, alive, x, dropped>>

Change(s) ==
  /\ CmdTime /\ alive[s] /\ x' = [x EXCEPT ![s] = 1 - @]
  /\ Cmd("change", s, NoId, 0, s)
  /\ UNCHANGED <<now, pend, hist, inbox, alive, cancelled, dropped>>

Cancel(s, id) ==
  /\ CmdTime /\ alive[s] /\ id # NoId
  /\ LET mine == { q \in pend : q.sess = s /\ q.id = id } IN
       /\ pend' = pend \ mine
       /\ cancelled' = cancelled \cup { q.inst : q \in mine }
  /\ Cmd("cancel", s, id, 0, s)
  /\ UNCHANGED <<now, hist, inbox, alive, x, dropped>>

Terminate(s) ==
  /\ CmdTime /\ alive[s]
  /\ alive' = [alive EXCEPT ![s] = FALSE]
  /\ LET mine == { q \in pend : q.sess = s } IN
       /\ pend' = pend \ mine /\ dropped' = dropped \cup { q.inst : q \in mine }
  /\ Cmd("quit", s, NoId, 0, s)
  /\ UNCHANGED <<now, hist, inbox, x, cancelled>>

\* the timer of session s delivers its earliest due event
Fire(p) ==
  /\ p \in pend /\ p.due <= now
  /\ \A q \in pend : q.sess = p.sess => q.due >= p.due
  /\ LET gone == IF MapSemantics /\ p.id # NoId THEN { q \in pend : q.sess = p.sess /\ q.id = p.id } ELSE {p} IN
       /\ pend' = pend \ gone
       /\ cancelled' = cancelled \cup { q.inst : q \in gone \ {p} }
  /\ inbox' = IF alive[p.tgt] THEN Append(inbox, [inst |-> p.inst, at |-> now, val |-> p.val, to |-> p.tgt,
                                                  senderAlive |-> alive[p.sess]])
              ELSE inbox
  /\ UNCHANGED <<now, hist, alive, x, dropped, cmds, ncmd, last>>

Advance == /\ now < MaxTime /\ now' = now + 1
           /\ UNCHANGED <<pend, hist, inbox, alive, x, cancelled, dropped, cmds, ncmd, last>>

Next == \/ \E s \in Sess, id \in Ids \cup {NoId}, d \in Delays, tgt \in Sess : Send(s, id, d, tgt)
        \/ \E s \in Sess : Change(s) \/ Terminate(s)
        \/ \E s \in Sess, id \in Ids : Cancel(s, id)
        \/ \E p \in pend : Fire(p)
        \/ Advance

Spec == Init /\ [][Next]_vars /\ WF_vars(\E p \in pend : Fire(p)) /\ WF_vars(Advance)

----------------------------------------------------------------------------
Delivered == { inbox[j].inst : j \in DOMAIN inbox }
Due(i) == hist[i].at + hist[i].d

NoEarly      == \A j \in DOMAIN inbox : inbox[j].at >= Due(inbox[j].inst)
AtMostOnce   == \A j, k \in DOMAIN inbox : inbox[j].inst = inbox[k].inst => j = k
ValueAtExec  == \A j \in DOMAIN inbox : inbox[j].val = hist[inbox[j].inst].val /\ inbox[j].to = hist[inbox[j].inst].tgt
DueOrder     == \A j, k \in DOMAIN inbox : (j < k /\ hist[inbox[j].inst].sess = hist[inbox[k].inst].sess)
                                              => Due(inbox[j].inst) <= Due(inbox[k].inst)
CancelPrevents == cancelled \cap Delivered = {}
TerminationDiscards == /\ dropped \cap Delivered = {}
                       /\ \A j \in DOMAIN inbox : inbox[j].senderAlive
Accounted    == \A i \in DOMAIN hist : \/ ~alive[hist[i].tgt]
                                        \/ Cardinality({ S \in {Delivered, cancelled, dropped, { q.inst : q \in pend }} : i \in S }) = 1
\* <cancel> touches only the pending sends of its own session with that id; nothing else disappears unless it fires or its session ends
CancelIsolated == [][\A q \in pend : q \notin pend' =>
                        \/ q.inst \in Delivered' \/ q.inst \in dropped' \/ ~alive[q.tgt]
                        \/ (q.inst \in cancelled' /\ ncmd' = ncmd + 1 /\ last'.op = "cancel"
                               /\ last'.s = q.sess /\ last'.id = q.id)]_vars
\* liveness: a send that is neither cancelled nor orphaned is delivered
ExactlyOnce == \A i \in 1..MaxSends :
                 <>[](i \in DOMAIN hist => (i \in Delivered \/ i \in cancelled \/ i \in dropped \/ ~alive[hist[i].tgt]))

\* behaviours for replay in the implementation (simulation mode): printed once the clock has run out
Emit == (now = MaxTime /\ pend = {} /\ Len(cmds) > 1) => PrintT(<<"REPLAY", ToJson(cmds)>>)
=============================================================================
