------------------------------- MODULE Mirror -------------------------------
(***************************************************************************)
(* C04 / C05: the refinement relation between an abstract SCXML document D *)
(* (what was written: states in document order with kind, nesting,         *)
(* transitions with descriptor tokens, initial form, content in normal     *)
(* form) and a model M dumped from the implementation through its public   *)
(* fields (states sorted by the reader's document id, names, stored child  *)
(* order, transitions sorted by document id, content regions decoded).     *)
(*                                                                         *)
(*  Mirrors(D, M): M is what the reader must build for D                   *)
(*  SameModel(M1, M2): two models are the same model (lexical variants of  *)
(*                     one document, or a model and its reloaded copy)     *)
(*                                                                         *)
(* Every line of IOEnv.PAIRS is [D, M, ref]: ref = index of the line whose *)
(* model this M must equal (0 = none).                                     *)
(***************************************************************************)
EXTENDS Naturals, Sequences, FiniteSets, TLC, Json, IOUtils, SequencesExt

Pairs == ndJsonDeserialize(IOEnv.PAIRS)
VARIABLES i, verdict

Star == <<"*">>

\* name of a D state in the model (the <scxml> element gets a generated name)
MName(M, n) == IF n = "" THEN M.root ELSE n
MNames(M, q) == [k \in DOMAIN q |-> MName(M, q[k])]

TransClass(M, d, m, mname) ==
  IF Len(m.trans) # Len(d.trans) THEN "transition-count"
  ELSE LET bad == { k \in DOMAIN d.trans :
                      LET a == d.trans[k] b == m.trans[k] IN
                      ~( /\ b.ev = a.ev
                         /\ b.wildcard = (\E x \in DOMAIN a.ev : a.ev[x] = Star)
                         /\ b.cond = a.cond
                         /\ b.tgt = MNames(M, a.tgt)
                         /\ b.internal = a.internal
                         /\ b.source = mname
                         /\ b.content = a.content ) }
       IN IF bad = {} THEN "" ELSE "transition"

InitClass(M, d, m) ==
  LET f == d.init.form IN
  IF f = "none" THEN (IF m.init.has = "0" THEN "" ELSE "initial-spurious")
  ELSE IF m.init.has = "0" THEN "initial-missing"
  ELSE IF f = "attr" THEN (IF m.init.tgt = MNames(M, d.init.tgt) /\ m.init.internal /\ m.init.content = <<>> THEN "" ELSE "initial-attr")
  ELSE IF f = "elem" THEN (IF m.init.tgt = MNames(M, d.init.tgt) /\ ~m.init.internal /\ m.init.content = d.init.content THEN "" ELSE "initial-elem")
  ELSE (IF m.init.tgt = <<MName(M, d.children[1])>> /\ m.init.content = <<>> THEN "" ELSE "initial-default")

StateClass(M, d, m) ==
  LET mname == MName(M, d.name) IN
  IF m.name # mname THEN "order"
  ELSE IF m.kind # d.kind \/ m.htype # d.htype THEN "kind"
  ELSE IF m.parent # (IF d.kind = "root" THEN "~" ELSE MName(M, d.parent)) THEN "parent"
  ELSE IF m.children # MNames(M, d.children) \/ m.children_stored # MNames(M, d.children) THEN "children"
  ELSE IF m.hists # d.hists THEN "history"
  ELSE IF InitClass(M, d, m) # "" THEN InitClass(M, d, m)
  ELSE IF TransClass(M, d, m, mname) # "" THEN TransClass(M, d, m, mname)
  ELSE IF m.onentry # d.onentry \/ m.onexit # d.onexit THEN "content"
  ELSE IF m.data # d.data THEN "data"
  ELSE IF m.invoke # d.invoke THEN "invoke"
  ELSE IF m.donedata # d.donedata THEN "donedata"
  ELSE ""

MirrorClass(D, M) ==
  IF M.name # D.name \/ M.datamodel # D.datamodel \/ M.binding # D.binding THEN "meta"
  ELSE IF Len(M.states) # Len(D.states) THEN "state-count"
  ELSE IF Cardinality({ M.states[k].name : k \in DOMAIN M.states }) # Len(M.states) THEN "names-not-unique"
  ELSE LET bad == { k \in DOMAIN D.states : StateClass(M, D.states[k], M.states[k]) # "" } IN
       IF bad # {} THEN LET k == CHOOSE x \in bad : \A y \in bad : x <= y IN StateClass(M, D.states[k], M.states[k])
       ELSE IF M.script # D.script THEN "script"
       ELSE ""
Mirrors(D, M) == MirrorClass(D, M) = ""

\* two dumps denote the same model; the generated name of the <scxml> element is ignored
Strip(M) == [M EXCEPT !.root = ""]
SameClass(M1, M2) ==
  IF M1.root # M2.root THEN "same-root"     \* generated the same way in both
  ELSE IF Len(M1.states) # Len(M2.states) THEN "same-state-count"
  ELSE LET bad == { k \in DOMAIN M1.states : M1.states[k] # M2.states[k] } IN
       IF bad # {} THEN "same-state"
       ELSE IF M1.name # M2.name \/ M1.datamodel # M2.datamodel \/ M1.binding # M2.binding \/ M1.script # M2.script THEN "same-meta"
       ELSE ""

P == Pairs[i]
Init == i \in 1..Len(Pairs) /\ verdict = ""
Judge ==
  /\ verdict = ""
  /\ LET c1 == IF P.hasD THEN MirrorClass(P.D, P.M) ELSE ""
         c2 == IF P.ref # 0 THEN SameClass(P.M, Pairs[P.ref].M) ELSE ""
     IN IF c1 = "" /\ c2 = "" THEN verdict' = "ok" /\ PrintT(<<"ACCEPT", i>>)
        ELSE verdict' = "bad" /\ PrintT(<<"REJECT", i, IF c1 # "" THEN c1 ELSE c2>>)
  /\ UNCHANGED i
Stutter == verdict # "" /\ UNCHANGED <<i, verdict>>
Spec == Init /\ [][Judge \/ Stutter]_<<i, verdict>>
=============================================================================
