SPECIFICATION Spec
CHECK_DEADLOCK TRUE
