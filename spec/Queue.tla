------------------------------- MODULE Queue -------------------------------
(***************************************************************************)
(* C13: N producers (host threads, timers, other sessions, HTTP handlers)   *)
(* append events to the external queue of one session; the append is the    *)
(* linearization point (mpsc channel send).  The session consumes one event *)
(* at a time and completes the macrostep (here: Micro internal steps)       *)
(* before it dequeues the next one.                                         *)
(***************************************************************************)
EXTENDS Naturals, Sequences, FiniteSets, TLC
CONSTANTS NP, M, Micro
VARIABLES next,      \* next[p]: number of events producer p has sent
          xq,        \* the external queue: sequence of <<p, k>>
          consumed,  \* sequence of consumed events
          cur,       \* event whose macrostep is in progress (<<0,0>> = none)
          left       \* microsteps left in the current macrostep
vars == <<next, xq, consumed, cur, left>>
Prod == 1..NP
None == <<0, 0>>
Init == next = [p \in Prod |-> 0] /\ xq = <<>> /\ consumed = <<>> /\ cur = None /\ left = 0
Send(p) == /\ next[p] < M
           /\ next' = [next EXCEPT ![p] = @ + 1]
           /\ xq' = Append(xq, <<p, next[p] + 1>>)
           /\ UNCHANGED <<consumed, cur, left>>
Dequeue == /\ cur = None /\ xq # <<>>
           /\ cur' = Head(xq) /\ xq' = Tail(xq) /\ left' = Micro
           /\ consumed' = Append(consumed, Head(xq))
           /\ UNCHANGED next
Step == /\ cur # None /\ left > 0 /\ left' = left - 1 /\ UNCHANGED <<next, xq, consumed, cur>>
EndMacro == /\ cur # None /\ left = 0 /\ cur' = None /\ UNCHANGED <<next, xq, consumed, left>>
Done == (\A p \in Prod : next[p] = M) /\ xq = <<>> /\ cur = None /\ UNCHANGED vars
Next == (\E p \in Prod : Send(p)) \/ Dequeue \/ Step \/ EndMacro \/ Done
Spec == Init /\ [][Next]_vars /\ WF_vars(Dequeue) /\ WF_vars(Step) /\ WF_vars(EndMacro)

Proj(q, p) == SelectSeq(q, LAMBDA e : e[1] = p)
\* each event at most once, in an order consistent with every sender's own order
PerSenderOrder == \A p \in Prod : \A i \in DOMAIN Proj(consumed, p) : Proj(consumed, p)[i] = <<p, i>>
NoLossNoDup == \A p \in Prod : Len(Proj(consumed, p)) + Len(Proj(xq, p)) = next[p]
\* the next event is only dequeued when the previous macrostep is complete
NoOverlap == cur # None => (Len(consumed) > 0 /\ consumed[Len(consumed)] = cur)
AllConsumed == <>((\A p \in Prod : next[p] = M) => Len(consumed) = NP * M)
=============================================================================
