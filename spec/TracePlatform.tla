--------------------------- MODULE TracePlatform ---------------------------
(***************************************************************************)
(* Recorded runs of the three-level invoke tree (parent P, child C,        *)
(* grandchild G; documents of check.py pf_docs) judged against the rules    *)
(* that Platform.tla establishes for the composed mechanisms.               *)
(*                                                                         *)
(* A scenario: p = the parent's records in its program order               *)
(*    [k, gen, lvl, i, kind, ts]  k = enter | exit (state sA) | ev (an      *)
(*    event up.* processed; gen/lvl/i/kind identify the send instance) |    *)
(*    done (done.invoke.kid processed) | probe                              *)
(* kids = the sessions started by the library: [lvl, gen, sends (i, kind,   *)
(*    t0, t1: marks before / after the <send>), nch (children it started),  *)
(*    ncmd (commands it processed), cancelled, tend (time of its end, 0 =   *)
(*    never), fin (left through its final state), ended]                    *)
(* half = half tick in microseconds (delays are kind-coded: timer events    *)
(* carry their delay in the send record d, in half ticks)                   *)
(***************************************************************************)
EXTENDS Naturals, Sequences, FiniteSets, TLC, Json, IOUtils, SequencesExt
Scens == ndJsonDeserialize(IOEnv.TRACES)
VARIABLES i, verdict

\* fold over the parent's records: cur = number of entries so far, in = inside sA, cancelled / done = generations
Step(acc, r) ==
  IF acc.bad # "" THEN acc
  ELSE CASE r.k = "enter" -> [acc EXCEPT !.cur = @ + 1, !.in = TRUE]
         [] r.k = "exit"  -> [acc EXCEPT !.in = FALSE, !.cancelled = IF acc.cur \in acc.done THEN @ ELSE @ \cup {acc.cur}]
         [] r.k = "done"  -> IF ~acc.in \/ acc.cur \in acc.done THEN [acc EXCEPT !.bad = "done-invoke-stray"]
                             ELSE [acc EXCEPT !.done = @ \cup {acc.cur}]
         [] r.k = "ev"    -> IF r.gen \in acc.cancelled THEN [acc EXCEPT !.bad = "event-after-cancel"]
                             ELSE IF r.gen \in acc.done THEN [acc EXCEPT !.bad = "event-after-done"]
                             ELSE IF r.gen > acc.cur \/ r.gen < 1 THEN [acc EXCEPT !.bad = "event-of-unknown-generation"]
                             ELSE IF <<r.gen, r.lvl, r.i>> \in acc.seen THEN [acc EXCEPT !.bad = "duplicate"]
                             ELSE [acc EXCEPT !.seen = @ \cup {<<r.gen, r.lvl, r.i>>}]
         [] OTHER -> acc
Acc0 == [cur |-> 0, in |-> FALSE, cancelled |-> {}, done |-> {}, seen |-> {}, bad |-> ""]
Fold(sc) == FoldLeft(Step, Acc0, sc.p)

Kid(sc, lvl, g) == { k \in DOMAIN sc.kids : sc.kids[k].lvl = lvl /\ sc.kids[k].gen = g }

ScenClass(sc) ==
  LET f == Fold(sc)
      evs == { k \in DOMAIN sc.p : sc.p[k].k = "ev" }
      probes == { k \in DOMAIN sc.p : sc.p[k].k = "probe" } IN
  IF f.bad # "" THEN f.bad
  \* one child per entry, one grandchild per child that got as far as its main loop
  ELSE IF \E g \in 1..f.cur : Cardinality(Kid(sc, "C", g)) # 1 THEN "child-count"
  ELSE IF \E k \in DOMAIN sc.kids : sc.kids[k].lvl = "C" /\ (sc.kids[k].nch > 1 \/ (sc.kids[k].ncmd > 0 /\ sc.kids[k].nch # 1)) THEN "nested-invoke-starts"
  ELSE IF \E k \in DOMAIN sc.kids : sc.kids[k].lvl \notin {"C", "G"} THEN "unknown-session"
  \* a session that has ended delivers nothing it armed: an event armed (mark before the send) after ... cannot exist;
  \* an event processed by the parent whose sender had ended before the event was even due
  ELSE IF \E e \in evs : sc.p[e].kind = "timer" /\
            \E k \in Kid(sc, sc.p[e].lvl, sc.p[e].gen) : sc.kids[k].tend > 0 /\
               \E s \in DOMAIN sc.kids[k].sends : sc.kids[k].sends[s].i = sc.p[e].i /\ sc.kids[k].sends[s].kind = "timer"
                                                   /\ sc.kids[k].sends[s].t0 + sc.half > sc.kids[k].tend THEN "timer-after-termination"
  \* the same one level down: the child processes nothing of its grandchild after that grandchild's done.invoke
  ELSE IF \E k \in DOMAIN sc.kids : \E a, b \in DOMAIN sc.kids[k].seq : a < b /\ sc.kids[k].seq[a] = "gdone" /\ sc.kids[k].seq[b] = "R" THEN "event-after-done"
  \* every processed event was really sent by that session
  ELSE IF \E e \in evs : \A k \in Kid(sc, sc.p[e].lvl, sc.p[e].gen) :
             ~\E s \in DOMAIN sc.kids[k].sends : sc.kids[k].sends[s].i = sc.p[e].i /\ sc.kids[k].sends[s].kind = sc.p[e].kind THEN "event-never-sent"
  \* cancellation cascades: when the parent was probed (long after its last command) nothing below a cancelled or finished
  \* child is still running
  ELSE IF probes # {} /\ \E k \in DOMAIN sc.kids : ~sc.kids[k].ended /\
             (sc.kids[k].gen \in f.cancelled \/ sc.kids[k].gen \in f.done) THEN "orphan-session"
  \* exactly once: what a child (not its grandchild) sent immediately while its generation was neither cancelled nor finished
  \* before the end of the run is processed by the parent
  ELSE IF \E k \in DOMAIN sc.kids : sc.kids[k].lvl = "C" /\ sc.kids[k].gen \notin f.cancelled /\
             \E s \in DOMAIN sc.kids[k].sends : sc.kids[k].sends[s].kind = "now" /\
                 <<sc.kids[k].gen, "C", sc.kids[k].sends[s].i>> \notin f.seen THEN "lost-event"
  ELSE ""

Init == i \in 1..Len(Scens) /\ verdict = ""
Judge == /\ verdict = ""
         /\ LET c == ScenClass(Scens[i]) IN
            IF c = "" THEN verdict' = "ok" /\ PrintT(<<"ACCEPT", i>>) ELSE verdict' = c /\ PrintT(<<"REJECT", i, c>>)
         /\ UNCHANGED i
Stutter == verdict # "" /\ UNCHANGED <<i, verdict>>
Spec == Init /\ [][Judge \/ Stutter]_<<i, verdict>>
=============================================================================
