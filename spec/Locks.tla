-------------------------------- MODULE Locks --------------------------------
(***************************************************************************)
(* C17: can the platform threads wait for each other's locks forever?       *)
(*                                                                         *)
(* The thread programs are not written by hand: they are the critical       *)
(* sections ("segments") observed in the implementation through the         *)
(* instrumented mutex - for every thread of a recorded scenario the         *)
(* distinct sequences of acquire / release operations between two moments   *)
(* at which it holds nothing (locks that are never held while another lock  *)
(* is requested are removed beforehand: they cannot be part of a cycle).    *)
(* A thread may execute any of its segments at any time; mutexes are not    *)
(* re-entrant.  TLC explores all interleavings of every subset of K         *)
(* threads of a scenario and reports every reachable state in which a set   *)
(* of threads wait for locks held inside the set.  A reported cycle is a    *)
(* prediction; the check confirms it in the implementation by steering the  *)
(* real threads to the same program points.                                 *)
(*                                                                         *)
(* Scens (ndjson): [threads |-> << [name, segs |-> << << <<op, lock>> .. >> *)
(*   .. >>] .. >>], op "a" (blocking acquire), "t" (try_lock, never waits), *)
(*   "u" (release); locks are small integers.                              *)
(***************************************************************************)
EXTENDS Naturals, Sequences, FiniteSets, TLC, Json, IOUtils
Scens == ndJsonDeserialize(IOEnv.TRACES)
CONSTANT K
VARIABLES i, active, cur, pc, holder
vars == <<i, active, cur, pc, holder>>

Threads(s) == DOMAIN Scens[s].threads
Seg(s, t, g) == Scens[s].threads[t].segs[g]
LocksOf(s) == UNION { UNION { { Seg(s, t, g)[p][2] : p \in DOMAIN Seg(s, t, g) } : g \in DOMAIN Scens[s].threads[t].segs } : t \in Threads(s) }
Subsets(S, n) == { x \in SUBSET S : Cardinality(x) = n }

Init == /\ i \in DOMAIN Scens
        /\ active \in Subsets(Threads(i), IF Cardinality(Threads(i)) < K THEN Cardinality(Threads(i)) ELSE K)
        /\ cur = [t \in Threads(i) |-> 0] /\ pc = [t \in Threads(i) |-> 0]
        /\ holder = [l \in LocksOf(i) |-> 0]

Op(t) == Seg(i, t, cur[t])[pc[t]]
Begin(t) == /\ cur[t] = 0
            /\ \E g \in DOMAIN Scens[i].threads[t].segs : cur' = [cur EXCEPT ![t] = g]
            /\ pc' = [pc EXCEPT ![t] = 1] /\ UNCHANGED <<i, active, holder>>
Advance(t) == IF pc[t] = Len(Seg(i, t, cur[t])) THEN cur' = [cur EXCEPT ![t] = 0] /\ pc' = [pc EXCEPT ![t] = 0]
              ELSE pc' = [pc EXCEPT ![t] = @ + 1] /\ UNCHANGED cur
Acquire(t) == /\ cur[t] # 0 /\ Op(t)[1] = "a" /\ holder[Op(t)[2]] = 0
              /\ holder' = [holder EXCEPT ![Op(t)[2]] = t] /\ Advance(t) /\ UNCHANGED <<i, active>>
Try(t) == /\ cur[t] # 0 /\ Op(t)[1] = "t"
          /\ holder' = IF holder[Op(t)[2]] = 0 THEN [holder EXCEPT ![Op(t)[2]] = t] ELSE holder
          /\ Advance(t) /\ UNCHANGED <<i, active>>
Release(t) == /\ cur[t] # 0 /\ Op(t)[1] = "u"
              /\ holder' = IF holder[Op(t)[2]] = t THEN [holder EXCEPT ![Op(t)[2]] = 0] ELSE holder
              /\ Advance(t) /\ UNCHANGED <<i, active>>
Next == \E t \in active : Begin(t) \/ Acquire(t) \/ Try(t) \/ Release(t)
Spec == Init /\ [][Next]_vars

Waiting(t) == cur[t] # 0 /\ Op(t)[1] = "a" /\ holder[Op(t)[2]] # 0
\* a set of threads each waiting for a lock held inside the set
Knot(W) == W # {} /\ \A t \in W : Waiting(t) /\ holder[Op(t)[2]] \in W
Deadlocked == \E W \in SUBSET active : Knot(W)
\* mutual exclusion of the model itself (sanity)
Mutex == \A l \in DOMAIN holder : holder[l] = 0 \/ holder[l] \in active

Report == Deadlocked => LET W == CHOOSE X \in SUBSET active : Knot(X) /\ \A Y \in SUBSET active : Knot(Y) => Cardinality(X) <= Cardinality(Y) IN
            PrintT(<<"CYCLE", i, { <<Scens[i].threads[t].name, cur[t], pc[t], Op(t)[2],
                                      { l \in DOMAIN holder : holder[l] = t }>> : t \in W }>>)
\* explored prefix is cut at a deadlocked state (everything behind it only repeats the report)
Cut == ~Deadlocked
=============================================================================
