SPECIFICATION Spec
CONSTANT K = 2
INVARIANT Mutex
INVARIANT Report
CHECK_DEADLOCK FALSE
