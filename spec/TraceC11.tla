------------------------------ MODULE TraceC11 ------------------------------
(***************************************************************************)
(* Acceptance of recorded evaluation outcomes for C11.  Each line of        *)
(* IOEnv.TRACES is one evaluation: [id, outcome, probe] with outcome one of *)
(*   "value" | "error"              (terminated normally)                   *)
(*   "panic" | "hang" | "died"      (thread panicked / did not return /     *)
(*                                   process aborted, e.g. stack overflow)  *)
(* and probe = TRUE iff a following evaluation of 1+1 on the same store     *)
(* returned 2 (store neither locked nor poisoned).                          *)
(* The only behaviours the language specification allows are               *)
(*   Evaluate: outcome \in {"value","error"} /\ store usable afterwards.    *)
(***************************************************************************)
EXTENDS Naturals, Sequences, TLC, Json, IOUtils

Recs == ndJsonDeserialize(IOEnv.TRACES)
VARIABLES i, verdict
Init == i \in 1..Len(Recs) /\ verdict = ""
Allowed(r) == r.outcome \in {"value", "error"} /\ r.probe
Judge == /\ verdict = ""
         /\ IF Allowed(Recs[i]) THEN verdict' = "ok"
            ELSE verdict' = Recs[i].outcome /\ PrintT(<<"REJECT", Recs[i].id, Recs[i].outcome, Recs[i].probe>>)
         /\ UNCHANGED i
Stutter == verdict # "" /\ UNCHANGED <<i, verdict>>
Spec == Init /\ [][Judge \/ Stutter]_<<i, verdict>>
=============================================================================
