SPECIFICATION Spec
CONSTANT MaxGen = 2
CONSTANT MaxCmds = 4
CONSTANT MaxTime = 4
CONSTANT Delays = {1}
CONSTANT Cascade = TRUE
CONSTANT DiscardTimers = TRUE
CONSTANT AtomicExit = TRUE
CONSTANT RecordCmds = FALSE
INVARIANT NothingAfterCancel
INVARIANT DoneOnceAndLast
INVARIANT DeadHasNoTimer
INVARIANT AtMostOnce
INVARIANT NoOrphan
CHECK_DEADLOCK FALSE
