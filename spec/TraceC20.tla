------------------------------ MODULE TraceC20 ------------------------------
(***************************************************************************)
(* C20: recorded HTTP scenarios judged with Http!Handle.                    *)
(* A scenario:                                                             *)
(*  posts  [tag, client, sid, fields [[k, v]], status]  requests made by   *)
(*         the host's client threads (per client in their order); sid is   *)
(*         "live" (the receiving session), "unknown" (a number that is not *)
(*         a session) or "text" (not a number)                             *)
(*  psends [name, params [[k, kind, i, s]]]  events the sending session    *)
(*         sent through the BasicHTTP processor to the location the        *)
(*         receiver published                                              *)
(*  recvs  [name, kind, map [[k, v]], text]  what the receiving session    *)
(*         processed, in its order                                         *)
(* Event names are unique per request within a scenario.                   *)
(***************************************************************************)
EXTENDS Naturals, Sequences, FiniteSets, TLC, Json, IOUtils, SequencesExt
CONSTANTS Clients, Plans
VARIABLES plan, pc, queue, replies
H == INSTANCE Http
Scens == ndJsonDeserialize(IOEnv.TRACES)
VARIABLES i, verdict

Req(p) == [sid |-> p.sid, fields |-> [j \in DOMAIN p.fields |-> [k |-> p.fields[j][1], v |-> p.fields[j][2]]]]
RecvData(r) == [kind |-> r.kind, map |-> { <<r.map[j][1], r.map[j][2]>> : j \in DOMAIN r.map }, text |-> r.text]
\* the textual form of a parameter value
Text(p) == CASE p[2] = "int" -> ToString(p[3])
             [] p[2] = "negint" -> "-" \o ToString(p[3])
             [] p[2] = "bool" -> IF p[3] = 1 THEN "true" ELSE "false"
             [] OTHER -> p[4]
SentData(s) == IF Len(s.params) = 0 THEN [kind |-> "none", map |-> {}, text |-> ""]
               ELSE [kind |-> "map", map |-> { <<s.params[j][1], Text(s.params[j])>> : j \in DOMAIN s.params }, text |-> ""]

RecvIdx(sc, name) == { j \in DOMAIN sc.recvs : sc.recvs[j].name = name }

PostClass(sc, p) ==
  LET h == H!Handle(Req(p)) IN
  IF p.status = 0 THEN "no-http-answer"
  ELSE IF h.ok /\ p.status # 200 THEN "accepted-request-answered-with-error"
  ELSE IF ~h.ok /\ p.status < 400 THEN "rejected-request-answered-with-success"
  ELSE IF h.ok /\ Cardinality(RecvIdx(sc, h.name)) = 0 THEN "event-lost"
  ELSE IF h.ok /\ Cardinality(RecvIdx(sc, h.name)) > 1 THEN "event-duplicated"
  ELSE IF h.ok /\ RecvData(sc.recvs[CHOOSE j \in RecvIdx(sc, h.name) : TRUE]) # h.data THEN "event-data"
  ELSE IF ~h.ok /\ H!HasField(Req(p), H!NameField) /\ RecvIdx(sc, H!FieldVal(Req(p), H!NameField)) # {} THEN "rejected-request-enqueued"
  ELSE ""

SendClass(sc, s) ==
  IF Cardinality(RecvIdx(sc, s.name)) = 0 THEN "sent-event-lost"
  ELSE IF Cardinality(RecvIdx(sc, s.name)) > 1 THEN "sent-event-duplicated"
  ELSE IF RecvData(sc.recvs[CHOOSE j \in RecvIdx(sc, s.name) : TRUE]) # SentData(s) THEN "sent-event-data"
  ELSE ""

Known(sc) == { H!Handle(Req(sc.posts[j])).name : j \in { x \in DOMAIN sc.posts : H!Handle(Req(sc.posts[x])).ok } }
             \cup { sc.psends[j].name : j \in DOMAIN sc.psends }
OrderBad(sc) == \E a, b \in DOMAIN sc.posts : a < b /\ sc.posts[a].client = sc.posts[b].client
                  /\ H!Handle(Req(sc.posts[a])).ok /\ H!Handle(Req(sc.posts[b])).ok
                  /\ \E ja \in RecvIdx(sc, H!Handle(Req(sc.posts[a])).name), jb \in RecvIdx(sc, H!Handle(Req(sc.posts[b])).name) : jb < ja

ScenClass(sc) ==
  IF \E j \in DOMAIN sc.posts : PostClass(sc, sc.posts[j]) # ""
  THEN LET j == CHOOSE x \in DOMAIN sc.posts : PostClass(sc, sc.posts[x]) # "" IN <<PostClass(sc, sc.posts[j]), sc.posts[j].tag>>
  ELSE IF \E j \in DOMAIN sc.psends : SendClass(sc, sc.psends[j]) # ""
  THEN LET j == CHOOSE x \in DOMAIN sc.psends : SendClass(sc, sc.psends[x]) # "" IN <<SendClass(sc, sc.psends[j]), j>>
  ELSE IF \E j \in DOMAIN sc.recvs : sc.recvs[j].name \notin Known(sc) THEN <<"spurious-event", 0>>
  ELSE IF OrderBad(sc) THEN <<"client-order", 0>>
  ELSE <<"", 0>>

Init == /\ i \in 1..Len(Scens) /\ verdict = ""
        /\ plan = [c \in Clients |-> <<>>] /\ pc = [c \in Clients |-> 1] /\ queue = <<>> /\ replies = [c \in Clients |-> <<>>]
Judge == /\ verdict = ""
         /\ LET c == ScenClass(Scens[i]) IN
            IF c[1] = "" THEN verdict' = "ok" /\ PrintT(<<"ACCEPT", i>>) ELSE verdict' = c[1] /\ PrintT(<<"REJECT", i, c[1], c[2]>>)
         /\ UNCHANGED <<i, plan, pc, queue, replies>>
Stutter == verdict # "" /\ UNCHANGED <<i, verdict, plan, pc, queue, replies>>
Spec == Init /\ [][Judge \/ Stutter]_<<i, verdict, plan, pc, queue, replies>>
=============================================================================
