-------------------------------- MODULE Expr --------------------------------
(***************************************************************************)
(* The rfsm-expression language (src/expression_engine/README.md and the   *)
(* operator table of the parser) as an executable specification:           *)
(*   - values: Integer (small ints + symbolic i64 MAX/MIN), Double as an   *)
(*     exact rational, String, Boolean, Null, Array, Map, Error;           *)
(*   - a flat sequence  o1 op1 o2 op2 ... is grouped by precedence         *)
(*     (! 3;  & * / : % 5;  | + - 6;  < <= > >= 9;  == != 10;  = ?= 16),   *)
(*     equal precedence binary operators group LEFT TO RIGHT;              *)
(*   - Integer arithmetic stays Integer and saturates, '/' yields Double,  *)
(*     Double contagion, '+' aggregates strings / arrays / maps, '=='      *)
(*     is structural with Integer/Double cross equality.                   *)
(* Where the documentation does not define a result the value is "unk"     *)
(* and the case is not judged.                                             *)
(*                                                                         *)
(* TLC enumerates expressions (Init picks one) and prints text, tokens and *)
(* expected value; the harness evaluates the text in the real engine.      *)
(***************************************************************************)
EXTENDS Naturals, Integers, Sequences, FiniteSets, TLC, Json, SequencesExt

\* ---------- values (uniform records)
V(t, i, n, d, s, a) == [t |-> t, i |-> i, n |-> n, d |-> d, s |-> s, a |-> a]
VInt(i) == V("int", i, 0, 1, "", <<>>)
VMax == V("imax", 0, 0, 1, "", <<>>)       \* i64::MAX
VMin == V("imin", 0, 0, 1, "", <<>>)       \* i64::MIN
VDbl(n, d) == V("dbl", 0, n, d, "", <<>>)  \* n/d, d > 0
VStr(s) == V("str", 0, 0, 1, s, <<>>)
VBool(b) == V("bool", IF b THEN 1 ELSE 0, 0, 1, "", <<>>)
VNull == V("null", 0, 0, 1, "", <<>>)
VArr(a) == V("arr", 0, 0, 1, "", a)
\* map: a = sequence of [k |-> key, v |-> value], sorted by key rank, keys unique
VMap(a) == V("map", 0, 0, 1, "", a)
VErr == V("err", 0, 0, 1, "", <<>>)        \* Data::Error value (propagates through arithmetic)
VFail == V("fail", 0, 0, 1, "", <<>>)      \* evaluation aborted with Err (unknown variable, bad index, ...)
VUnk == V("unk", 0, 0, 1, "", <<>>)        \* not defined by the documentation: not judged

IsNum(x) == x.t \in {"int", "dbl"}
IsBig(x) == x.t \in {"imax", "imin"}
Num(x) == IF x.t = "int" THEN [n |-> x.i, d |-> 1] ELSE [n |-> x.n, d |-> x.d]
Abs(i) == IF i < 0 THEN -i ELSE i

\* propagate the special outcomes: fail beats unk beats everything else
Special(x, y) == IF x.t = "fail" \/ y.t = "fail" THEN VFail
                 ELSE IF x.t = "unk" \/ y.t = "unk" THEN VUnk ELSE VErr
HasSpecial(x, y) == x.t \in {"fail", "unk"} \/ y.t \in {"fail", "unk"}

\* textual form used by string concatenation (Display of the engine) where it is determined
HasText(x) == x.t \in {"str", "int", "bool", "null"} \/ (x.t = "dbl" /\ x.n % x.d = 0 /\ x.n >= 0)
Text(x) == CASE x.t = "str" -> x.s
             [] x.t = "int" -> ToString(x.i)
             [] x.t = "bool" -> (IF x.i = 1 THEN "true" ELSE "false")
             [] x.t = "null" -> "null"
             [] x.t = "dbl" -> ToString(x.n \div x.d)
             [] OTHER -> ""

\* string order: only for the strings of the operand alphabet (rank table); otherwise unknown
StrRank == [s \in {"", "a", "ab", "b"} |-> CASE s = "" -> 0 [] s = "a" -> 1 [] s = "ab" -> 2 [] s = "b" -> 3]
HasRank(s) == s \in DOMAIN StrRank

\* map helpers: merge with right winning, keys kept sorted by rank
MapKeys(a) == { a[i].k : i \in DOMAIN a }
MapGet(a, k) == (CHOOSE e \in Range(a) : e.k = k).v
MapMerge(a, b) ==
  LET ks == MapKeys(a) \cup MapKeys(b)
      sorted == SetToSortSeq(ks, LAMBDA p, q : StrRank[p] < StrRank[q])
  IN [i \in DOMAIN sorted |-> [k |-> sorted[i], v |-> IF sorted[i] \in MapKeys(b) THEN MapGet(b, sorted[i]) ELSE MapGet(a, sorted[i])]]

\* ---------- operators
Plus(x, y) ==
  IF HasSpecial(x, y) THEN Special(x, y)
  ELSE IF x.t = "err" \/ y.t = "err" THEN VErr
  ELSE IF x.t = "int" /\ y.t = "int" THEN VInt(x.i + y.i)
  ELSE IF IsNum(x) /\ IsNum(y) THEN LET p == Num(x) q == Num(y) IN VDbl(p.n * q.d + q.n * p.d, p.d * q.d)
  ELSE IF x.t = "imax" /\ ((y.t = "int" /\ y.i >= 0) \/ y.t = "imax") THEN VMax
  ELSE IF y.t = "imax" /\ (x.t = "int" /\ x.i >= 0) THEN VMax
  ELSE IF x.t = "imin" /\ ((y.t = "int" /\ y.i <= 0) \/ y.t = "imin") THEN VMin
  ELSE IF y.t = "imin" /\ (x.t = "int" /\ x.i <= 0) THEN VMin
  ELSE IF IsBig(x) \/ IsBig(y) THEN VUnk
  ELSE IF x.t = "str" THEN (IF HasText(y) THEN VStr(x.s \o Text(y)) ELSE VUnk)
  ELSE IF x.t = "arr" /\ y.t = "arr" THEN VArr(x.a \o y.a)
  ELSE IF x.t = "arr" THEN VArr(Append(x.a, y))
  ELSE IF y.t = "str" THEN (IF HasText(x) THEN VStr(Text(x) \o y.s) ELSE VUnk)
  ELSE IF x.t = "map" /\ y.t = "map" THEN VMap(MapMerge(x.a, y.a))
  ELSE VUnk

Arith(op, x, y) ==     \* "-", "*"
  IF HasSpecial(x, y) THEN Special(x, y)
  ELSE IF x.t = "null" \/ y.t = "null" THEN VUnk
  ELSE IF ~(IsNum(x) \/ IsBig(x)) \/ ~(IsNum(y) \/ IsBig(y)) THEN VErr     \* works only on numeric types
  ELSE IF x.t = "int" /\ y.t = "int" THEN VInt(IF op = "-" THEN x.i - y.i ELSE x.i * y.i)
  ELSE IF IsNum(x) /\ IsNum(y) THEN
       LET p == Num(x) q == Num(y) IN
       IF op = "-" THEN VDbl(p.n * q.d - q.n * p.d, p.d * q.d) ELSE VDbl(p.n * q.n, p.d * q.d)
  ELSE IF op = "-" THEN
       (IF x.t = "imax" /\ y.t = "int" /\ y.i <= 0 THEN VMax
        ELSE IF x.t = "imin" /\ y.t = "int" /\ y.i >= 0 THEN VMin
        ELSE IF x.t = "imax" /\ y.t = "imin" THEN VMax
        ELSE IF x.t = "imin" /\ y.t = "imax" THEN VMin
        ELSE IF x.t = y.t THEN VInt(0)
        ELSE VUnk)
  ELSE \* "*"
       (IF (x.t = "int" /\ x.i = 0) \/ (y.t = "int" /\ y.i = 0) THEN VInt(0)
        ELSE IF x.t = "int" /\ x.i = 1 THEN y
        ELSE IF y.t = "int" /\ y.i = 1 THEN x
        ELSE IF x.t = "imax" /\ ((y.t = "int" /\ y.i > 1) \/ y.t = "imax") THEN VMax
        ELSE IF y.t = "imax" /\ (x.t = "int" /\ x.i > 1) THEN VMax
        ELSE IF x.t = "imin" /\ (y.t = "int" /\ y.i > 1) THEN VMin
        ELSE IF y.t = "imin" /\ (x.t = "int" /\ x.i > 1) THEN VMin
        ELSE IF x.t = "imin" /\ y.t = "imin" THEN VMax
        ELSE IF IsBig(x) /\ IsBig(y) THEN VMin
        ELSE IF (x.t = "imax" /\ y.t = "int" /\ y.i < -1) \/ (y.t = "imax" /\ x.t = "int" /\ x.i < -1) THEN VMin
        ELSE IF (x.t = "imin" /\ y.t = "int" /\ y.i < 0) \/ (y.t = "imin" /\ x.t = "int" /\ x.i < 0) THEN VMax
        ELSE VUnk)

Div(x, y) ==
  IF HasSpecial(x, y) THEN Special(x, y)
  ELSE IF x.t = "null" \/ y.t = "null" THEN VUnk
  ELSE IF ~(IsNum(x) \/ IsBig(x)) \/ ~(IsNum(y) \/ IsBig(y)) THEN VErr
  ELSE IF IsBig(x) \/ IsBig(y) THEN VUnk
  ELSE LET p == Num(x) q == Num(y) IN
       IF q.n = 0 THEN VUnk        \* IEEE infinities / NaN: not part of the documented semantics (see C11)
       ELSE IF q.n > 0 THEN VDbl(p.n * q.d, p.d * q.n) ELSE VDbl(-(p.n * q.d), p.d * (-q.n))

Mod(x, y) ==
  IF HasSpecial(x, y) THEN Special(x, y)
  ELSE IF x.t = "null" \/ y.t = "null" THEN VUnk
  ELSE IF ~(IsNum(x) \/ IsBig(x)) \/ ~(IsNum(y) \/ IsBig(y)) THEN VErr
  ELSE IF x.t = "int" /\ y.t = "int" /\ y.i # 0 THEN
       LET r == Abs(x.i) % Abs(y.i) IN VInt(IF x.i < 0 THEN -r ELSE r)    \* remainder, sign of the dividend
  ELSE VUnk

Cmp(op, x, y) ==
  IF HasSpecial(x, y) THEN Special(x, y)
  ELSE IF IsNum(x) /\ IsNum(y) THEN
       LET p == Num(x) q == Num(y) l == p.n * q.d r == q.n * p.d IN
       VBool(CASE op = "<" -> l < r [] op = "<=" -> l <= r [] op = ">" -> l > r [] op = ">=" -> l >= r)
  ELSE IF (IsNum(x) \/ IsBig(x)) /\ (IsNum(y) \/ IsBig(y)) THEN
       (IF x.t = y.t THEN VBool(op \in {"<=", ">="})
        ELSE IF x.t = "imax" \/ y.t = "imin" THEN VBool(op \in {">", ">="})
        ELSE VBool(op \in {"<", "<="}))
  ELSE IF x.t = "str" /\ y.t = "str" /\ HasRank(x.s) /\ HasRank(y.s) THEN
       LET l == StrRank[x.s] r == StrRank[y.s] IN
       VBool(CASE op = "<" -> l < r [] op = "<=" -> l <= r [] op = ">" -> l > r [] op = ">=" -> l >= r)
  ELSE VUnk

RECURSIVE SameVal(_, _)
SameVal(x, y) ==       \* structural equality with Integer/Double cross equality
  IF IsNum(x) /\ IsNum(y) THEN LET p == Num(x) q == Num(y) IN p.n * q.d = q.n * p.d
  ELSE IF x.t # y.t THEN FALSE
  ELSE CASE x.t = "str" -> x.s = y.s
         [] x.t = "bool" -> x.i = y.i
         [] x.t = "arr" -> Len(x.a) = Len(y.a) /\ \A i \in DOMAIN x.a : SameVal(x.a[i], y.a[i])
         [] x.t = "map" -> Len(x.a) = Len(y.a) /\ \A i \in DOMAIN x.a : x.a[i].k = y.a[i].k /\ SameVal(x.a[i].v, y.a[i].v)
         [] OTHER -> TRUE         \* null, imax, imin
Eq(op, x, y) ==
  IF HasSpecial(x, y) THEN Special(x, y)
  ELSE IF x.t = "err" \/ y.t = "err" THEN VUnk
  ELSE IF (IsBig(x) /\ y.t = "dbl") \/ (IsBig(y) /\ x.t = "dbl") THEN VUnk
  ELSE VBool(IF op = "==" THEN SameVal(x, y) ELSE ~SameVal(x, y))

Logic(op, x, y) ==
  IF HasSpecial(x, y) THEN Special(x, y)
  ELSE IF x.t = "err" \/ y.t = "err" THEN VErr
  ELSE IF x.t = "bool" /\ y.t = "bool" THEN VBool(IF op = "&" THEN x.i = 1 /\ y.i = 1 ELSE x.i = 1 \/ y.i = 1)
  ELSE VErr

Not(x) == IF x.t \in {"fail", "unk"} THEN x ELSE IF x.t = "bool" THEN VBool(x.i = 0) ELSE VFail

Apply(op, x, y) ==
  CASE op = "+" -> Plus(x, y)
    [] op \in {"-", "*"} -> Arith(op, x, y)
    [] op \in {"/", ":"} -> Div(x, y)
    [] op = "%" -> Mod(x, y)
    [] op \in {"<", "<=", ">", ">="} -> Cmp(op, x, y)
    [] op \in {"==", "!="} -> Eq(op, x, y)
    [] op \in {"&", "|"} -> Logic(op, x, y)

Prio(op) == CASE op \in {"&", "*", "/", ":", "%"} -> 5
              [] op \in {"|", "+", "-"} -> 6
              [] op \in {"<", "<=", ">", ">="} -> 9
              [] op \in {"==", "!="} -> 10

BinOps == {"*", "/", ":", "%", "+", "-", "<", "<=", ">", ">=", "==", "!=", "&", "|"}

\* grouping of a flat sequence: split at the LAST operator of the loosest precedence
RECURSIVE EvalFlat(_, _)
EvalFlat(vals, ops) ==
  IF ops = <<>> THEN vals[1]
  ELSE LET mx == CHOOSE p \in { Prio(ops[i]) : i \in DOMAIN ops } : \A i \in DOMAIN ops : Prio(ops[i]) <= p
           j == CHOOSE i \in DOMAIN ops : Prio(ops[i]) = mx /\ \A k \in DOMAIN ops : (k > i => Prio(ops[k]) < mx)
           l == EvalFlat(SubSeq(vals, 1, j), SubSeq(ops, 1, j - 1))
           r == EvalFlat(SubSeq(vals, j + 1, Len(vals)), SubSeq(ops, j + 1, Len(ops)))
       IN IF l.t = "fail" THEN VFail ELSE Apply(ops[j], l, r)

\* ---------- operands: [txt, v]
Operand(txt, v) == [txt |-> txt, v |-> v]
M1 == <<[k |-> "a", v |-> VInt(1)]>>
M2 == <<[k |-> "b", v |-> VInt(2)]>>
M3 == <<[k |-> "a", v |-> VInt(3)]>>
M4 == <<[k |-> "a", v |-> VInt(5)], [k |-> "b", v |-> VInt(2)]>>     \* larger than the others and sharing a key with them
AllOperands == <<
  Operand("0", VInt(0)), Operand("1", VInt(1)), Operand("2", VInt(2)), Operand("3", VInt(3)),
  Operand("7", VInt(7)), Operand("10", VInt(10)), Operand("-1", VInt(-1)), Operand("-4", VInt(-4)),
  Operand("2.5", VDbl(5, 2)), Operand("0.5", VDbl(1, 2)), Operand("1.0", VDbl(1, 1)), Operand("-1.5", VDbl(-3, 2)),
  Operand("'a'", VStr("a")), Operand("'b'", VStr("b")), Operand("'ab'", VStr("ab")), Operand("''", VStr("")),
  Operand("true", VBool(TRUE)), Operand("false", VBool(FALSE)), Operand("null", VNull),
  Operand("[1,2]", VArr(<<VInt(1), VInt(2)>>)), Operand("[]", VArr(<<>>)), Operand("['a']", VArr(<<VStr("a")>>)),
  Operand("{'a':1}", VMap(M1)), Operand("{'b':2}", VMap(M2)), Operand("{'a':3}", VMap(M3)),
  Operand("9223372036854775807", VMax), Operand("-9223372036854775808", VMin),
  Operand("nosuchvar", VFail),
  Operand("{'a':5,'b':2}", VMap(M4)) >>

\* ---------- enumeration
CONSTANTS K,          \* number of binary operators in the expression (1..3)
          OperandIdx, \* set of indices into AllOperands used at this depth
          OpSet,      \* set of operators used
          NotSet      \* positions that may carry a leading '!' (0 = none)
VARIABLE x
Operands == { AllOperands[i] : i \in OperandIdx }

\* an expression = operands o[1..K+1], operators p[1..K], parenthesised sub-range [lo, hi] (lo = hi: none),
\* nt = index of an operand with a leading '!' (0 = none)
Shapes == { <<1, 1>> } \cup { <<lo, hi>> \in (1..K+1) \X (1..K+1) : lo < hi /\ ~(lo = 1 /\ hi = K + 1) }
Init == x \in [o : [1..K+1 -> Operands], p : [1..K -> OpSet], sh : Shapes, nt : NotSet]
Next == UNCHANGED x

Val(e) ==
  LET vals == [i \in 1..K+1 |-> IF e.nt = i /\ ~(e.sh[1] <= i /\ i <= e.sh[2] /\ e.sh[1] < e.sh[2]) THEN Not(e.o[i].v) ELSE e.o[i].v]
      lo == e.sh[1] hi == e.sh[2]
  IN IF lo = hi THEN EvalFlat(vals, e.p)
     ELSE LET inner == EvalFlat(SubSeq(vals, lo, hi), SubSeq(e.p, lo, hi - 1))
              pv == IF e.nt = lo THEN Not(inner) ELSE inner      \* '!' in front of the parenthesis
              vs == SubSeq(vals, 1, lo - 1) \o <<pv>> \o SubSeq(vals, hi + 1, K + 1)
              os == SubSeq(e.p, 1, lo - 1) \o SubSeq(e.p, hi, K)
          IN EvalFlat(vs, os)

\* token list (the harness joins it with different whitespace)
Toks(e) ==
  LET lo == e.sh[1] hi == e.sh[2]
      T[i \in 1..K+1] ==
        (IF i > 1 THEN <<e.p[i-1]>> ELSE <<>>)
        \o (IF e.nt = i THEN <<"!">> ELSE <<>>)
        \o (IF lo < hi /\ i = lo THEN <<"(">> ELSE <<>>)
        \o <<e.o[i].txt>>
        \o (IF lo < hi /\ i = hi THEN <<")">> ELSE <<>>)
  IN FoldLeft(LAMBDA acc, i : acc \o T[i], <<>>, [i \in 1..K+1 |-> i])

\* '!' inside a parenthesised range (other than at its start) is not generated
WellFormed(e) == e.nt = 0 \/ e.sh[1] = e.sh[2] \/ e.nt <= e.sh[1] \/ e.nt > e.sh[2]

\* compact encodings for the output
RECURSIVE Join(_, _)
Join(q, sep) == IF q = <<>> THEN "" ELSE IF Len(q) = 1 THEN q[1] ELSE q[1] \o sep \o Join(Tail(q), sep)
RECURSIVE Enc(_)
Enc(v) == CASE v.t = "int" -> "i" \o ToString(v.i)
            [] v.t = "dbl" -> "d" \o ToString(v.n) \o "/" \o ToString(v.d)
            [] v.t = "str" -> "s'" \o v.s \o "'"
            [] v.t = "bool" -> "b" \o ToString(v.i)
            [] v.t = "null" -> "n"
            [] v.t = "imax" -> "i9223372036854775807"
            [] v.t = "imin" -> "i-9223372036854775808"
            [] v.t = "arr" -> "[" \o Join([i \in DOMAIN v.a |-> Enc(v.a[i])], ",") \o "]"
            [] v.t = "map" -> "{" \o Join([i \in DOMAIN v.a |-> v.a[i].k \o ":" \o Enc(v.a[i].v)], ",") \o "}"
            [] v.t \in {"err", "fail"} -> "E"
            [] OTHER -> "U"

Emit == WellFormed(x) => PrintT(<<"EXPR", Join(Toks(x), " "), Enc(Val(x))>>)
Spec == Init /\ [][Next]_x
=============================================================================
