------------------------------ MODULE Platform ------------------------------
(***************************************************************************)
(* Composition of the mechanisms that Invoke.tla, Delay.tla and Queue.tla   *)
(* describe one at a time: a parent session P whose state sA invokes a      *)
(* child (a new generation on every entry, always under the same invoke     *)
(* id), the child invokes a grandchild, every session owns a timer, all     *)
(* queues are FIFO.  What is explored here is the *interaction*: timers of  *)
(* a session racing its cancellation or completion, cancellation cascading  *)
(* down the invoke tree, events relayed grandchild -> child -> parent       *)
(* racing the parent's cancel, delayed parent -> child sends that become    *)
(* due in another generation of the invoke id.                              *)
(*                                                                         *)
(* The actions follow the implementation:                                   *)
(*   Enter / Leave       parent macrosteps entering / leaving sA            *)
(*                       (Fsm::invoke at the macrostep end, cancelInvoke:   *)
(*                       the cancel *event* is appended to the child's      *)
(*                       queue and the session is remembered as cancelled)  *)
(*   ChildInit           first macrostep of a child: invokes the grandchild *)
(*   Deq                 a child / grandchild dequeues one event: a command *)
(*                       (send now, arm a timer, finish), an event of its   *)
(*                       own child (relayed upwards), or the cancel event   *)
(*   ExitA / ExitB       exitInterpreter in two steps as in the code:       *)
(*                       (A) cancel events to the own children and - after  *)
(*                       a final state - done.invoke to the parent;         *)
(*                       (B) the Fsm with its timer is dropped.             *)
(*                       AtomicExit = TRUE merges them (the repaired code   *)
(*                       discards the pending sends before step A).         *)
(*   Fire                a timer thread delivers a due event                *)
(*   PDeq                the parent dequeues: events whose origin is a      *)
(*                       session it has cancelled are dropped               *)
(* Variants that TLC must refute (the model has to tell them apart):        *)
(*   Cascade = FALSE     exitInterpreter does not cancel the own children   *)
(*   DiscardTimers=FALSE a dropped session leaves its timers armed          *)
(*   AtomicExit = FALSE  window between done.invoke and the timer drop      *)
(***************************************************************************)
EXTENDS Naturals, Sequences, FiniteSets, TLC, Json

CONSTANTS MaxGen,        \* entries of the invoking state
          MaxCmds,       \* host commands
          MaxTime,       \* half ticks
          Delays,        \* odd delays (commands are issued at even times)
          Cascade, DiscardTimers, AtomicExit,
          RecordCmds

Gens == 1..MaxGen
Kids == { <<"C", g>> : g \in Gens } \cup { <<"G", g>> : g \in Gens }
ParentOf(s) == IF s[1] = "G" THEN <<"C", s[2]>> ELSE <<"P", 0>>
ChildOf(s)  == <<"G", s[2]>>            \* only for s[1] = "C"
P == <<"P", 0>>

VARIABLES now, gen, inS,
          phase,     \* [Kids -> "none" | "init" | "loop" | "exiting" | "dead"]
          why,       \* [Kids -> "" | "final" | "cancel"]   why a session left its loop
          q,         \* [Kids -> Seq of messages]   external queues of children and grandchildren
          pq,        \* the parent's external queue
          timers,    \* set of [owner, due, inst]       (every timer targets the owner's parent)
          ninst,     \* number of events created so far (instances are unique)
          pcancelled,\* sessions the parent has cancelled
          ccancelled,\* [Gens -> BOOLEAN] child g has cancelled its grandchild
          processed, \* what the parent processed: Seq of [from, gen, kind, inst, late, afterdone]
          pdone,     \* generations whose done.invoke the parent has processed
          cmds, ncmd
vars == <<now, gen, inS, phase, why, q, pq, timers, ninst, pcancelled, ccancelled, processed, pdone, cmds, ncmd>>

Init == /\ now = 0 /\ gen = 0 /\ inS = FALSE
        /\ phase = [s \in Kids |-> "none"] /\ why = [s \in Kids |-> ""]
        /\ q = [s \in Kids |-> <<>>] /\ pq = <<>> /\ timers = {} /\ ninst = 0
        /\ pcancelled = {} /\ ccancelled = [g \in Gens |-> FALSE]
        /\ processed = <<>> /\ pdone = {} /\ cmds = <<>> /\ ncmd = 0

Alive(s) == phase[s] \in {"init", "loop", "exiting", "dropping"}
CmdTime == now % 2 = 0 /\ ncmd < MaxCmds
Cmd(op, d) == /\ cmds' = IF RecordCmds THEN Append(cmds, [op |-> op, d |-> d, t |-> now]) ELSE cmds
              /\ ncmd' = ncmd + 1

\* ---- host commands (all go through the parent's queue in the implementation; the parent relays k.* to '#_kid',
\* the child relays g.* to '#_gkid'; a relay to a child that does not exist any more is an error.communication
\* in the relaying session and has no further effect)
Enter == /\ CmdTime /\ ~inS /\ gen < MaxGen
         /\ gen' = gen + 1 /\ inS' = TRUE
         /\ phase' = [phase EXCEPT ![<<"C", gen + 1>>] = "init"]
         /\ Cmd("enter", 0)
         /\ UNCHANGED <<now, why, q, pq, timers, ninst, pcancelled, ccancelled, processed, pdone>>

Leave == /\ CmdTime /\ inS
         /\ inS' = FALSE
         /\ LET c == <<"C", gen>> IN
            IF gen \in pdone THEN UNCHANGED <<q, pcancelled>>          \* done.invoke processed: not in the table any more
            ELSE /\ pcancelled' = pcancelled \cup {c}
                 /\ q' = [q EXCEPT ![c] = Append(@, [k |-> "cancel"])]
         /\ Cmd("leave", 0)
         /\ UNCHANGED <<now, gen, phase, why, pq, timers, ninst, ccancelled, processed, pdone>>

\* a command for the child (k) or the grandchild (g) of the current generation; lost if the relay finds nobody
KidCmd(lvl, op, d) ==
  /\ CmdTime /\ inS /\ gen \notin pdone
  /\ LET c == <<"C", gen>> IN
     q' = [q EXCEPT ![c] = Append(@, [k |-> "cmd", lvl |-> lvl, op |-> op, d |-> d])]
  /\ Cmd(lvl \o "." \o op, d)
  /\ UNCHANGED <<now, gen, inS, phase, why, pq, timers, ninst, pcancelled, ccancelled, processed, pdone>>

\* ---- children
ChildInit(s) ==
  /\ phase[s] = "init"
  /\ phase' = IF s[1] = "C" THEN [phase EXCEPT ![s] = "loop", ![ChildOf(s)] = "init"] ELSE [phase EXCEPT ![s] = "loop"]
  /\ UNCHANGED <<now, gen, inS, why, q, pq, timers, ninst, pcancelled, ccancelled, processed, pdone, cmds, ncmd>>

Deq(s) ==
  /\ phase[s] = "loop" /\ q[s] # <<>>
  /\ LET m == Head(q[s]) rest == [q EXCEPT ![s] = Tail(@)] IN
     CASE m.k = "cancel" ->
            /\ phase' = [phase EXCEPT ![s] = "exiting"] /\ why' = [why EXCEPT ![s] = "cancel"]
            /\ q' = rest /\ UNCHANGED <<pq, timers, ninst, ccancelled>>
       [] m.k = "up" ->
            \* an event of the own child: dropped if that child has been cancelled, else relayed to the own parent
            IF s[1] = "C" /\ ccancelled[s[2]] THEN q' = rest /\ UNCHANGED <<pq, phase, why, timers, ninst, ccancelled>>
            ELSE IF m.kind = "done" THEN q' = rest /\ UNCHANGED <<pq, phase, why, timers, ninst, ccancelled>>
            ELSE /\ pq' = Append(pq, [from |-> s, kind |-> "relay", inst |-> m.inst]) /\ q' = rest
                 /\ UNCHANGED <<phase, why, timers, ninst, ccancelled>>
       [] m.k = "cmd" /\ m.lvl = "g" /\ s[1] = "C" ->
            \* relay to the grandchild ('#_gkid'); nobody there any more: error.communication, nothing else
            /\ q' = IF Alive(ChildOf(s)) THEN [rest EXCEPT ![ChildOf(s)] = Append(@, [m EXCEPT !.lvl = "k"])] ELSE rest
            /\ UNCHANGED <<pq, phase, why, timers, ninst, ccancelled>>
       [] m.k = "cmd" /\ m.op = "send" ->
            /\ ninst' = ninst + 1
            /\ IF s[1] = "G" THEN /\ q' = [rest EXCEPT ![ParentOf(s)] = Append(@, [k |-> "up", kind |-> "now", inst |-> ninst + 1, from |-> s])]
                                  /\ UNCHANGED pq
               ELSE /\ pq' = Append(pq, [from |-> s, kind |-> "now", inst |-> ninst + 1]) /\ q' = rest
            /\ UNCHANGED <<phase, why, timers, ccancelled>>
       [] m.k = "cmd" /\ m.op = "arm" ->
            /\ ninst' = ninst + 1 /\ timers' = timers \cup {[owner |-> s, due |-> now + m.d, inst |-> ninst + 1]}
            /\ q' = rest /\ UNCHANGED <<pq, phase, why, ccancelled>>
       [] m.k = "cmd" /\ m.op = "fin" ->
            /\ phase' = [phase EXCEPT ![s] = "exiting"] /\ why' = [why EXCEPT ![s] = "final"]
            /\ q' = rest /\ UNCHANGED <<pq, timers, ninst, ccancelled>>
       [] OTHER -> q' = rest /\ UNCHANGED <<pq, phase, why, timers, ninst, ccancelled>>
  /\ UNCHANGED <<now, gen, inS, pcancelled, processed, pdone, cmds, ncmd>>

\* exitInterpreter, step A: cancel events to the own children, done.invoke to the parent after a final state
ExitA(s) ==
  /\ phase[s] = "exiting"
  /\ LET kid == ChildOf(s)
         cas == Cascade /\ s[1] = "C" /\ Alive(kid)
         q1 == IF cas THEN [q EXCEPT ![kid] = Append(@, [k |-> "cancel"])] ELSE q IN
     /\ ccancelled' = IF cas THEN [ccancelled EXCEPT ![s[2]] = TRUE] ELSE ccancelled
     /\ IF why[s] = "final"
        THEN IF s[1] = "G" THEN /\ q' = [q1 EXCEPT ![ParentOf(s)] = Append(@, [k |-> "up", kind |-> "done", inst |-> 0, from |-> s])]
                                /\ UNCHANGED pq
             ELSE /\ pq' = Append(pq, [from |-> s, kind |-> "done", inst |-> 0]) /\ q' = q1
        ELSE q' = q1 /\ UNCHANGED pq
  /\ IF AtomicExit
     THEN /\ phase' = [phase EXCEPT ![s] = "dead"]
          /\ timers' = IF DiscardTimers THEN { t \in timers : t.owner # s } ELSE timers
     ELSE /\ phase' = [phase EXCEPT ![s] = "dropping"] /\ UNCHANGED timers
  /\ UNCHANGED <<now, gen, inS, why, ninst, pcancelled, processed, pdone, cmds, ncmd>>

\* step B: the session's Fsm (and its timer thread) is dropped
ExitB(s) ==
  /\ phase[s] = "dropping"
  /\ phase' = [phase EXCEPT ![s] = "dead"]
  /\ timers' = IF DiscardTimers THEN { t \in timers : t.owner # s } ELSE timers
  /\ UNCHANGED <<now, gen, inS, why, q, pq, ninst, pcancelled, ccancelled, processed, pdone, cmds, ncmd>>

Fire(t) ==
  /\ t \in timers /\ t.due <= now
  /\ \A u \in timers : u.owner = t.owner => u.due >= t.due
  /\ timers' = timers \ {t}
  /\ IF t.owner[1] = "G"
     THEN /\ q' = [q EXCEPT ![ParentOf(t.owner)] = Append(@, [k |-> "up", kind |-> "timer", inst |-> t.inst, from |-> t.owner])]
          /\ UNCHANGED pq
     ELSE /\ pq' = Append(pq, [from |-> t.owner, kind |-> "timer", inst |-> t.inst]) /\ UNCHANGED q
  /\ UNCHANGED <<now, gen, inS, phase, why, ninst, pcancelled, ccancelled, processed, pdone, cmds, ncmd>>

PDeq ==
  /\ pq # <<>>
  /\ LET m == Head(pq) IN
     /\ pq' = Tail(pq)
     /\ IF m.from \in pcancelled THEN UNCHANGED <<processed, pdone>>
        ELSE /\ processed' = Append(processed, [from |-> m.from, kind |-> m.kind, inst |-> m.inst,
                                                late |-> m.from \in pcancelled, afterdone |-> m.from[2] \in pdone])
             /\ pdone' = IF m.kind = "done" THEN pdone \cup {m.from[2]} ELSE pdone
  /\ UNCHANGED <<now, gen, inS, phase, why, q, timers, ninst, pcancelled, ccancelled, cmds, ncmd>>

Advance == /\ now < MaxTime /\ now' = now + 1
           /\ UNCHANGED <<gen, inS, phase, why, q, pq, timers, ninst, pcancelled, ccancelled, processed, pdone, cmds, ncmd>>

Next == \/ Enter \/ Leave
        \/ \E lvl \in {"k", "g"}, op \in {"send", "fin"} : KidCmd(lvl, op, 0)
        \/ \E lvl \in {"k", "g"}, d \in Delays : KidCmd(lvl, "arm", d)
        \/ \E s \in Kids : ChildInit(s) \/ Deq(s) \/ ExitA(s) \/ ExitB(s)
        \/ \E t \in timers : Fire(t)
        \/ PDeq \/ Advance

Fair == /\ WF_vars(PDeq) /\ WF_vars(Advance) /\ WF_vars(\E t \in timers : Fire(t))
        /\ \A s \in Kids : WF_vars(ChildInit(s)) /\ WF_vars(Deq(s)) /\ WF_vars(ExitA(s)) /\ WF_vars(ExitB(s))
Spec == Init /\ [][Next]_vars /\ Fair

----------------------------------------------------------------------------
\* C14: nothing of a cancelled invocation is processed (also not through a timer or a relay)
NothingAfterCancel == \A k \in DOMAIN processed : ~processed[k].late
\* C14: done.invoke once per generation and after every other event of that child
DoneOnceAndLast == \A k \in DOMAIN processed : ~processed[k].afterdone
\* C16: a session that is gone has no armed timer
DeadHasNoTimer == \A t \in timers : phase[t.owner] # "dead"
\* every event is processed at most once
AtMostOnce == \A j, k \in DOMAIN processed : (processed[j].inst # 0 /\ processed[j].inst = processed[k].inst) => j = k
\* C14 applied to the child's own invoke: once the child is gone its grandchild has been told to stop
NoOrphan == \A g \in Gens : phase[<<"C", g>>] = "dead" /\ phase[<<"G", g>>] \in {"init", "loop"}
                              => \E j \in DOMAIN q[<<"G", g>>] : q[<<"G", g>>][j].k = "cancel"
\* liveness: a grandchild never outlives its (cancelled or finished) parent for ever
OrphansEnd == \A g \in Gens : [](phase[<<"C", g>>] = "dead" => <>(phase[<<"G", g>>] \in {"none", "dead"}))
\* liveness: everything sent by a session the parent never cancelled is eventually processed
QueuesDrain == <>[](pq = <<>>)

Quiet == now = MaxTime /\ pq = <<>> /\ timers = {} /\ \A s \in Kids : q[s] = <<>> /\ phase[s] \in {"none", "loop", "dead"}
Emit == (Quiet /\ Len(cmds) > 2) => PrintT(<<"REPLAY", ToJson(cmds)>>)
=============================================================================
