SPECIFICATION Spec
CONSTANT MaxGen = 3
CONSTANT MaxCmds = 9
CONSTANT MaxTime = 10
CONSTANT Delays = {1, 3}
CONSTANT Cascade = TRUE
CONSTANT DiscardTimers = TRUE
CONSTANT AtomicExit = TRUE
CONSTANT RecordCmds = TRUE
INVARIANT NothingAfterCancel
INVARIANT DoneOnceAndLast
INVARIANT DeadHasNoTimer
INVARIANT AtMostOnce
INVARIANT NoOrphan
INVARIANT Emit
CHECK_DEADLOCK FALSE
