------------------------------ MODULE TraceC16 ------------------------------
(***************************************************************************)
(* C16: recorded runs with delayed sends judged by the rules of Delay.tla,  *)
(* lifted from logical to measured time.                                    *)
(*                                                                         *)
(* A scenario (all times in microseconds since the start of the scenario):  *)
(*  sends   [inst, sess, id, mant, scale, unit, t0, t1, val, tgt]           *)
(*          the delayed <send> ran between t0 and t1 (marks before and      *)
(*          after the element) in session sess; its delay is written as     *)
(*          mant / 10^scale unit; val = the datum it must carry             *)
(*  cancels [sess, id, c0, c1]   a <cancel sendid=id> ran between c0 and c1 *)
(*  recvs   [inst, sess, t, val] session sess processed the event at t      *)
(*          (in the order of that session's log)                            *)
(*  ends    [sess, t]            session ended (tracer's last callback)     *)
(*  horizon  the end of the observation                                     *)
(* Only what is certain from the measured intervals is judged: the timer    *)
(* was armed somewhere in [t0, t1], so the due time lies in                 *)
(* [t0 + d, t1 + d].                                                        *)
(***************************************************************************)
EXTENDS Naturals, Sequences, FiniteSets, TLC, Json, IOUtils, SequencesExt
Scens == ndJsonDeserialize(IOEnv.TRACES)
VARIABLES i, verdict

Late == 400000      \* a timer that is more than this late counts as lost
EndSlack == 20000   \* the timer of a session may outlive the tracer's last callback by this much

Pow10(n) == IF n = 0 THEN 1 ELSE IF n = 1 THEN 10 ELSE IF n = 2 THEN 100 ELSE IF n = 3 THEN 1000 ELSE 10000
UnitMs(u) == CASE u = "ms" -> 1 [] u = "s" -> 1000 [] u = "m" -> 60000 [] u = "h" -> 3600000 [] OTHER -> 0
\* milliseconds, rounded half up (parse_duration_to_milliseconds rounds the same way for positive values)
DelayMs(s) == (2 * s.mant * UnitMs(s.unit) + Pow10(s.scale)) \div (2 * Pow10(s.scale))
Due0(s) == s.t0 + 1000 * DelayMs(s)
Due1(s) == s.t1 + 1000 * DelayMs(s)

Recvs(sc, s) == { j \in DOMAIN sc.recvs : sc.recvs[j].inst = s.inst }
EndOf(sc, name) == IF \E e \in DOMAIN sc.ends : sc.ends[e].sess = name
                   THEN sc.ends[CHOOSE e \in DOMAIN sc.ends : sc.ends[e].sess = name].t ELSE -1
Ended(sc, name) == \E e \in DOMAIN sc.ends : sc.ends[e].sess = name

\* a <cancel> of the same session and id that certainly ran after the send and certainly before the due time
CancelledSurely(sc, s) == s.id # "" /\ \E c \in DOMAIN sc.cancels :
      sc.cancels[c].sess = s.sess /\ sc.cancels[c].id = s.id /\ sc.cancels[c].c0 > s.t1 /\ sc.cancels[c].c1 < Due0(s)
\* a <cancel> that may have hit it
MaybeCancelled(sc, s) == s.id # "" /\ \E c \in DOMAIN sc.cancels :
      sc.cancels[c].sess = s.sess /\ sc.cancels[c].id = s.id /\ sc.cancels[c].c1 > s.t0
TerminatedSurely(sc, s) == Ended(sc, s.sess) /\ EndOf(sc, s.sess) + EndSlack < Due0(s)
MaybeTerminated(sc, s) == (Ended(sc, s.sess) /\ EndOf(sc, s.sess) < Due1(s) + Late)
                          \/ (Ended(sc, s.tgt) /\ EndOf(sc, s.tgt) < Due1(s) + Late)
MustDeliver(sc, s) == ~MaybeCancelled(sc, s) /\ ~MaybeTerminated(sc, s) /\ Due1(s) + Late < sc.horizon

SendClass(sc, s) ==
  LET rs == Recvs(sc, s) IN
  IF Cardinality(rs) > 1 THEN "delivered-twice"
  ELSE IF \E j \in rs : sc.recvs[j].t < Due0(s) THEN "early"
  ELSE IF \E j \in rs : sc.recvs[j].val # s.val THEN "value-not-from-execution-time"
  ELSE IF \E j \in rs : sc.recvs[j].sess # s.tgt THEN "wrong-receiver"
  ELSE IF CancelledSurely(sc, s) /\ rs # {} THEN "delivered-after-cancel"
  ELSE IF TerminatedSurely(sc, s) /\ rs # {} THEN "delivered-after-termination"
  ELSE IF MustDeliver(sc, s) /\ rs = {} THEN
          (IF s.id # "" /\ \E o \in DOMAIN sc.sends : sc.sends[o].inst # s.inst /\ sc.sends[o].sess = s.sess /\ sc.sends[o].id = s.id
           THEN "lost-same-id" ELSE "lost")
  ELSE ""

\* of two delayed events of one timer (sender) to one receiver, the one certainly due earlier is processed first.
\* The event received first must itself have gone through the timer: an immediate send executed after a timer had become
\* due may overtake that timer's event when the timer thread is late (allowed: "no earlier than"), whereas a timer event
\* received before an immediate one that was executed before the timer was due would have been early.
OrderBad(sc) == \E a, b \in DOMAIN sc.recvs : a < b /\ sc.recvs[a].sess = sc.recvs[b].sess /\
                  \E sa, sb \in DOMAIN sc.sends : sc.sends[sa].inst = sc.recvs[a].inst /\ sc.sends[sb].inst = sc.recvs[b].inst
                       /\ sc.sends[sa].sess = sc.sends[sb].sess /\ Due1(sc.sends[sb]) < Due0(sc.sends[sa])
                       /\ DelayMs(sc.sends[sa]) > 0

ScenClass(sc) ==
  IF \E j \in DOMAIN sc.recvs : ~\E s \in DOMAIN sc.sends : sc.sends[s].inst = sc.recvs[j].inst THEN "unknown-delivery"
  ELSE IF \E s \in DOMAIN sc.sends : SendClass(sc, sc.sends[s]) # ""
       THEN SendClass(sc, sc.sends[CHOOSE s \in DOMAIN sc.sends : SendClass(sc, sc.sends[s]) # ""])
  ELSE IF OrderBad(sc) THEN "due-order"
  ELSE ""

\* what the run exercised (for the evidence): [delivered, surely cancelled, surely terminated, must-deliver]
Stats(sc) == <<Cardinality({ s \in DOMAIN sc.sends : Recvs(sc, sc.sends[s]) # {} }),
               Cardinality({ s \in DOMAIN sc.sends : CancelledSurely(sc, sc.sends[s]) }),
               Cardinality({ s \in DOMAIN sc.sends : TerminatedSurely(sc, sc.sends[s]) }),
               Cardinality({ s \in DOMAIN sc.sends : MustDeliver(sc, sc.sends[s]) })>>

Init == i \in 1..Len(Scens) /\ verdict = ""
Judge == /\ verdict = ""
         /\ LET c == ScenClass(Scens[i]) IN
            IF c = "" THEN verdict' = "ok" /\ PrintT(<<"ACCEPT", i, Stats(Scens[i])>>) ELSE verdict' = c /\ PrintT(<<"REJECT", i, c>>)
         /\ UNCHANGED i
Stutter == verdict # "" /\ UNCHANGED <<i, verdict>>
Spec == Init /\ [][Judge \/ Stutter]_<<i, verdict>>
=============================================================================
