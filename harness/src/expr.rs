//! `vh expr`: evaluates rfsm-expression texts in the real engine through several paths.
//!
//! Job (one JSON per line): {"id":..,"text":"..","store":true|false,"timeout_ms":..}
//! Result: {"id":..,"a":enc,"b1":enc,"b2":enc,"store":{name:enc},"probe":bool,"panic":msg|null,"hang":bool}
//!   a  = ExpressionParser::execute on a fresh store
//!   b1 = RFsmExpressionDatamodel::execute with a Data::Source carrying a source id (compiled afresh)
//!   b2 = the same call again (served from the compilation cache)
//! enc: i<int> | d<float> | s'<text>' | b0/b1 | n | [..] | {k:..} | E (error) | N (none)
//! After each evaluation `1+1` is evaluated on the same store (probe): detects locked/poisoned stores.

use rufsm::datamodel::expression_engine::RFsmExpressionDatamodel;
use rufsm::datamodel::{create_data_arc, create_global_data_arc, Data, Datamodel, GlobalDataArc, SourceCode};
use rufsm::expression_engine::parser::ExpressionParser;
use serde_json::{json, Value};
use std::collections::HashMap;
use std::sync::mpsc;
use std::time::Duration;

pub fn enc(d: &Data) -> String {
    match d {
        Data::Integer(i) => format!("i{}", i),
        Data::Double(f) => format!("d{:e}", f),
        Data::String(s) => format!("s'{}'", s),
        Data::Boolean(b) => (if *b { "b1" } else { "b0" }).to_string(),
        Data::Null() => "n".to_string(),
        Data::None() => "N".to_string(),
        Data::Error(_) => "E".to_string(),
        Data::Source(s) => format!("S'{}'", s.source),
        Data::Array(a) => {
            let v: Vec<String> = a
                .iter()
                .map(|x| match x.arc.try_lock() {
                    Ok(g) => enc(&g),
                    Err(_) => "L".to_string(),
                })
                .collect();
            format!("[{}]", v.join(","))
        }
        Data::Map(m) => {
            let mut ks: Vec<&String> = m.keys().collect();
            ks.sort();
            let v: Vec<String> = ks
                .iter()
                .map(|k| {
                    format!(
                        "{}:{}",
                        k,
                        match m.get(*k).unwrap().arc.try_lock() {
                            Ok(g) => enc(&g),
                            Err(_) => "L".to_string(),
                        }
                    )
                })
                .collect();
            format!("{{{}}}", v.join(","))
        }
    }
}

fn enc_result(r: &Result<rufsm::datamodel::DataArc, String>) -> String {
    match r {
        Ok(v) => match v.arc.try_lock() {
            Ok(g) => enc(&g),
            Err(_) => "L".to_string(),
        },
        Err(_) => "E".to_string(),
    }
}

fn arr(v: Vec<Data>) -> Data {
    Data::Array(v.into_iter().map(create_data_arc).collect())
}

pub fn make_store(std_store: bool) -> GlobalDataArc {
    let gd = create_global_data_arc();
    {
        let mut g = gd.lock().unwrap();
        RFsmExpressionDatamodel::add_internal_functions_to_wrapper(&mut g.actions);
    }
    fill_store(&gd, std_store);
    gd
}

/// (re)creates the variables of the standard store; everything else in the store is removed
pub fn fill_store(gd: &GlobalDataArc, std_store: bool) {
    {
        let mut g = gd.lock().unwrap();
        g.data.map.clear();
        if std_store {
            g.data.set_undefined("n".to_string(), Data::Integer(5));
            g.data.set_undefined("s".to_string(), Data::String("str".to_string()));
            g.data.set_undefined("t".to_string(), Data::Boolean(true));
            g.data.set_undefined(
                "arr".to_string(),
                arr(vec![Data::Integer(10), Data::Integer(20), Data::Integer(30)]),
            );
            let mut m = HashMap::new();
            m.insert("b".to_string(), create_data_arc(Data::Integer(1)));
            m.insert("c".to_string(), create_data_arc(arr(vec![Data::Integer(1), Data::Integer(2)])));
            g.data.set_undefined("m".to_string(), Data::Map(m));
            let mut ro = create_data_arc(Data::Integer(9));
            ro.set_readonly(true);
            g.data.set_undefined_arc("ro".to_string(), ro);
        }
    }
}

fn store_dump(gd: &GlobalDataArc) -> Value {
    let mut o = serde_json::Map::new();
    match gd.try_lock() {
        Ok(g) => {
            for (k, v) in &g.data.map {
                o.insert(
                    k.clone(),
                    json!(match v.arc.try_lock() {
                        Ok(d) => enc(&d),
                        Err(_) => "L".to_string(),
                    }),
                );
            }
        }
        Err(_) => {
            o.insert("_locked".to_string(), json!(true));
        }
    }
    Value::Object(o)
}

fn probe(gd: &GlobalDataArc) -> bool {
    match gd.try_lock() {
        Ok(mut g) => matches!(
            ExpressionParser::execute_str("1+1", &mut g).map(|v| enc(&v.lock().unwrap())),
            Ok(ref s) if s == "i2"
        ),
        Err(_) => false,
    }
}

fn eval_all(text: &str, std_store: bool, id: usize) -> Value {
    // path a
    let gd = make_store(std_store);
    let a = {
        let mut g = gd.lock().unwrap();
        enc_result(&ExpressionParser::execute(text.to_string(), &mut g))
    };
    let pa = probe(&gd);
    let store = store_dump(&gd);
    // path b
    let gd2 = make_store(std_store);
    let mut dm = RFsmExpressionDatamodel::new(gd2.clone());
    let src = Data::Source(SourceCode::new(text, id + 1));
    let b1 = enc_result(&dm.execute(&src));
    let b2 = enc_result(&dm.execute(&src));
    // path c: the same text as a condition
    let c = match dm.execute_condition(&Data::Source(SourceCode::new(text, 0))) {
        Ok(true) => "b1",
        Ok(false) => "b0",
        Err(_) => "E",
    };
    let pb = probe(&gd2);
    let store_b = store_dump(&gd2);
    // path b3: the store is put back to its initial contents, the compilation cache of the datamodel is kept: the
    // cached compilation must behave on a fresh store exactly like the fresh compilation did
    fill_store(&gd2, std_store);
    let b3 = enc_result(&dm.execute(&src));
    let store_b3 = store_dump(&gd2);
    // path d: sources without identity (id 0: <param expr>, namelist items, <foreach item>, computed texts) on one datamodel:
    // a different text evaluated before must not influence the value (fresh store, fresh datamodel)
    let gd4 = make_store(std_store);
    let mut dm4 = RFsmExpressionDatamodel::new(gd4.clone());
    let d0 = enc_result(&dm4.execute(&Data::Source(SourceCode::new("424242", 0))));
    let d = enc_result(&dm4.execute(&Data::Source(SourceCode::new(text, 0))));
    json!({"a": a, "b1": b1, "b2": b2, "b3": b3, "c": c, "d0": d0, "d": d, "probe": pa && pb, "store": store, "store_b": store_b, "store_b3": store_b3})
}

pub fn run_file(input: &str, output: &str) -> std::io::Result<()> {
    use std::io::{BufRead, Write};
    let f = std::fs::File::open(input)?;
    let mut out = std::io::BufWriter::new(std::fs::File::create(output)?);
    for line in std::io::BufReader::new(f).lines().map_while(Result::ok) {
        if line.trim().is_empty() {
            continue;
        }
        let job: Value = serde_json::from_str(&line).unwrap_or(json!({}));
        let id = job.get("id").and_then(|x| x.as_u64()).unwrap_or(0) as usize;
        let text = job.get("text").and_then(|x| x.as_str()).unwrap_or("").to_string();
        let std_store = job.get("store").and_then(|x| x.as_bool()).unwrap_or(false);
        let timeout = job.get("timeout_ms").and_then(|x| x.as_u64()).unwrap_or(3000);
        let (tx, rx) = mpsc::channel();
        let tname = format!("expr_{}", id);
        let t2 = text.clone();
        // a 2 MB stack, like a session thread
        let h = std::thread::Builder::new().name(tname.clone()).stack_size(2 * 1024 * 1024).spawn(move || {
            let r = std::panic::catch_unwind(|| eval_all(&t2, std_store, id));
            let _ = tx.send(r.ok());
        });
        let mut res = json!({"id": id});
        match rx.recv_timeout(Duration::from_millis(timeout)) {
            Ok(Some(v)) => {
                if let (Value::Object(o), Value::Object(r)) = (&mut res, v) {
                    for (k, x) in r {
                        o.insert(k, x);
                    }
                }
            }
            Ok(None) => {
                res["panic"] = json!(crate::run::take_panics_for(&tname).join("; "));
            }
            Err(_) => {
                // the evaluation did not return: report it and end this (sacrificial) process, so that the
                // stuck thread cannot go on consuming CPU and memory; the driver restarts with the next job
                res["hang"] = json!(true);
                writeln!(out, "{}", res)?;
                out.flush()?;
                std::process::exit(3);
            }
        }
        drop(h);
        writeln!(out, "{}", res)?;
        out.flush()?;
    }
    Ok(())
}
