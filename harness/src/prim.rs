//! `vh prim` (C05 primitives) and `vh cut` (C18 fault enumeration on the binary format).

use rufsm::serializer::default_protocol_reader::DefaultProtocolReader;
use rufsm::serializer::default_protocol_writer::DefaultProtocolWriter;
use rufsm::serializer::fsm_reader::FsmReader;
use rufsm::serializer::fsm_writer::FsmWriter;
use rufsm::serializer::protocol_reader::ProtocolReader;
use rufsm::serializer::protocol_writer::ProtocolWriter;
use serde_json::{json, Value};
use std::io::Write;

fn hex(b: &[u8]) -> String {
    b.iter().map(|x| format!("{:02x}", x)).collect()
}

fn guarded<T>(f: impl FnOnce() -> T) -> Result<T, String> {
    match std::panic::catch_unwind(std::panic::AssertUnwindSafe(f)) {
        Ok(v) => Ok(v),
        Err(_) => Err(crate::run::take_panics_for(std::thread::current().name().unwrap_or("?")).join("; ")),
    }
}

/// Job: {"id":..,"kind":"uint","hex":"ff.."} | {"id":..,"kind":"str","text":".."} | {"kind":"optstr","text":..|null}
pub fn prim_job(job: &Value) -> Value {
    let id = job.get("id").cloned().unwrap_or(Value::Null);
    let kind = job.get("kind").and_then(|x| x.as_str()).unwrap_or("");
    let r = guarded(|| {
        let mut buf: Vec<u8> = Vec::new();
        match kind {
            "uint" => {
                let v = u64::from_str_radix(job.get("hex").and_then(|x| x.as_str()).unwrap_or("0"), 16).unwrap_or(0);
                let werr;
                {
                    let mut w = DefaultProtocolWriter::new(&mut buf);
                    w.write_uint(v);
                    w.close();
                    werr = w.has_error();
                }
                let mut r = DefaultProtocolReader::new(buf.as_slice());
                let back = r.read_uint();
                json!({"back": format!("{:x}", back), "same": back == v, "bytes": hex(&buf), "werr": werr, "rerr": r.has_error()})
            }
            "data" => {
                // a data value described as {t, s, i, a} (Rfsm.tla DataVals): write_data / read_data round trip
                fn build(v: &Value) -> rufsm::datamodel::Data {
                    use rufsm::datamodel::{create_data_arc, Data, SourceCode};
                    let t = v.get("t").and_then(|x| x.as_str()).unwrap_or("");
                    let s = v.get("s").and_then(|x| x.as_str()).unwrap_or("");
                    let a: Vec<Value> = v.get("a").and_then(|x| x.as_array()).cloned().unwrap_or_default();
                    match t {
                        "null" => Data::Null(),
                        "none" => Data::None(),
                        "int" => Data::Integer(s.parse::<i64>().unwrap_or(0)),
                        "dbl" => Data::Double(s.parse::<f64>().unwrap_or(f64::NAN)),
                        "str" => Data::String(s.to_string()),
                        "bool" => Data::Boolean(s == "true"),
                        "err" => Data::Error(s.to_string()),
                        "src" => Data::Source(SourceCode::new(s, v.get("i").and_then(|x| x.as_u64()).unwrap_or(0) as usize)),
                        "arr" => Data::Array(a.iter().map(|x| create_data_arc(build(x))).collect()),
                        "map" => Data::Map(a.iter().map(|e| {
                            let k = e.get("s").and_then(|x| x.as_str()).unwrap_or("").to_string();
                            let inner = e.get("a").and_then(|x| x.as_array()).and_then(|q| q.first()).cloned().unwrap_or(Value::Null);
                            (k, create_data_arc(build(&inner)))
                        }).collect()),
                        _ => Data::None(),
                    }
                }
                fn show(d: &rufsm::datamodel::Data) -> String {
                    use rufsm::datamodel::Data;
                    match d {
                        Data::Source(s) => format!("S'{}'#{}", s.source, s.source_id),
                        Data::Error(e) => format!("E'{}'", e),
                        Data::Double(f) => format!("d{:?}", f),
                        Data::Array(a) => format!("[{}]", a.iter().map(|x| show(&x.lock().unwrap())).collect::<Vec<_>>().join(",")),
                        Data::Map(m) => {
                            let mut ks: Vec<&String> = m.keys().collect();
                            ks.sort();
                            format!("{{{}}}", ks.iter().map(|k| format!("{}:{}", k, show(&m.get(*k).unwrap().lock().unwrap()))).collect::<Vec<_>>().join(","))
                        }
                        other => crate::expr::enc(other),
                    }
                }
                let spec: Value = serde_json::from_str(job.get("value").and_then(|x| x.as_str()).unwrap_or("null")).unwrap_or(Value::Null);
                let orig = build(&spec);
                let werr;
                {
                    let mut w = DefaultProtocolWriter::new(&mut buf);
                    w.write_data(&orig);
                    w.write_uint(0x5a);
                    w.close();
                    werr = w.has_error();
                }
                let mut r = DefaultProtocolReader::new(buf.as_slice());
                let back = r.read_data();
                let sentinel = r.read_uint();
                json!({"same": show(&back) == show(&orig) && sentinel == 0x5a, "orig": show(&orig), "back": show(&back), "tag": buf.first().copied(),
                       "werr": werr, "rerr": r.has_error()})
            }
            _ => {
                let text = job.get("text").and_then(|x| x.as_str()).unwrap_or("").to_string();
                let werr;
                {
                    let mut w = DefaultProtocolWriter::new(&mut buf);
                    w.write_str(&text);
                    w.close();
                    werr = w.has_error();
                }
                let mut r = DefaultProtocolReader::new(buf.as_slice());
                let back = r.read_string();
                json!({"same": back == text, "backlen": back.len(), "len": text.len(), "head": hex(&buf[..buf.len().min(4)]),
                       "werr": werr, "rerr": r.has_error()})
            }
        }
    });
    match r {
        Ok(mut v) => {
            v["id"] = id;
            v
        }
        Err(p) => json!({"id": id, "panic": p}),
    }
}

/// A sink that misbehaves at the k-th write call: mode 1 = accepts only `m` bytes of that call, mode 2 = fails.
struct FaultySink {
    data: Vec<u8>,
    calls: usize,
    k: usize,
    mode: u8,
    m: usize,
    injected: bool,
}

impl Write for FaultySink {
    fn write(&mut self, buf: &[u8]) -> std::io::Result<usize> {
        self.calls += 1;
        if self.calls == self.k && !buf.is_empty() {
            self.injected = self.mode == 2 || (self.mode == 1 && self.m.min(buf.len()).max(1) < buf.len());
            if self.mode == 2 {
                return Err(std::io::Error::new(std::io::ErrorKind::Other, "injected write failure"));
            }
            if self.mode == 1 {
                let n = self.m.min(buf.len()).max(1).min(buf.len());
                self.data.extend_from_slice(&buf[..n]);
                return Ok(n);
            }
        }
        self.data.extend_from_slice(buf);
        Ok(buf.len())
    }
    fn flush(&mut self) -> std::io::Result<()> {
        Ok(())
    }
}

fn write_with(fsm: &rufsm::fsm::Fsm, k: usize, mode: u8, m: usize) -> (Vec<u8>, bool, usize, bool) {
    let mut sink = FaultySink { data: Vec::new(), calls: 0, k, mode, m, injected: false };
    let err;
    {
        let pw = DefaultProtocolWriter::new(&mut sink);
        let mut w = FsmWriter::new(Box::new(pw));
        w.write(fsm);
        w.close();
        err = w.writer.has_error();
    }
    let calls = sink.calls;
    let injected = sink.injected;
    (sink.data, err, calls, injected)
}

/// Job: {"id":..,"xml":".."}. Result: outcome of reading every prefix of the image ('o' ok, 'e' error, 'p' panic)
/// and of every single-fault write.
pub fn cut_job(job: &Value) -> Value {
    let id = job.get("id").cloned().unwrap_or(Value::Null);
    let xml = job.get("xml").and_then(|x| x.as_str()).unwrap_or("");
    let max_writes = job.get("max_writes").and_then(|x| x.as_u64()).unwrap_or(100000) as usize;
    let fsm = match crate::run::parse_guarded(xml, &[]) {
        Ok(f) => f,
        Err(e) => return json!({"id": id, "parse_error": e}),
    };
    let (image, werr, calls, _) = write_with(&fsm, 0, 0, 0);
    if werr {
        return json!({"id": id, "write_error": true});
    }
    let mut outcomes = String::with_capacity(image.len() + 1);
    let mut panics: Vec<Value> = Vec::new();
    for n in 0..=image.len() {
        let r = guarded(|| {
            let pr = DefaultProtocolReader::new(&image[..n]);
            let mut rd = FsmReader::new(Box::new(pr));
            rd.read().is_ok()
        });
        match r {
            Ok(true) => outcomes.push('o'),
            Ok(false) => outcomes.push('e'),
            Err(p) => {
                outcomes.push('p');
                if panics.len() < 5 {
                    panics.push(json!([n, p]));
                }
            }
        }
    }
    // writer faults
    let mut wres: Vec<Value> = Vec::new();
    let step = if calls > max_writes { calls / max_writes + 1 } else { 1 };
    let mut k = 1;
    while k <= calls {
        for (mode, m) in [(1u8, 1usize), (1u8, 0usize), (2u8, 0usize)] {
            let r = guarded(|| write_with(&fsm, k, mode, m));
            match r {
                Ok((data, err, _, injected)) => {
                    if injected {
                        wres.push(json!([k, mode, m, data == image, err]))
                    }
                }
                Err(p) => wres.push(json!([k, mode, m, "panic", p])),
            }
        }
        k += step;
    }
    json!({"id": id, "len": image.len(), "reads": outcomes, "panics": panics, "write_calls": calls, "writes": wres})
}

pub fn run_file(cmd: &str, input: &str, output: &str) -> std::io::Result<()> {
    use std::io::BufRead;
    let f = std::fs::File::open(input)?;
    let mut out = std::io::BufWriter::new(std::fs::File::create(output)?);
    for line in std::io::BufReader::new(f).lines().map_while(Result::ok) {
        if line.trim().is_empty() {
            continue;
        }
        let job: Value = serde_json::from_str(&line).unwrap_or(json!({}));
        let r = if cmd == "prim" { prim_job(&job) } else { cut_job(&job) };
        writeln!(out, "{}", r)?;
    }
    out.flush()
}
