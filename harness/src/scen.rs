//! `vh scen`: multi-session scenarios on one executor (platform properties C12-C17).
//!
//! Job: {"id":.., "dir": "<scratch dir>", "sessions":[{"name":"A","xml":"..","entry":"start"|"execute","data":{..}}],
//!       "steps":[ STEP.. ], "timeout_ms":.., "http": bool}
//! STEP: {"start":"A"} | {"send":"A","event":EV} | {"sleep":ms} | {"gate":k} | {"settle":ms} | {"cancel":"A"}
//!       | {"threads":[[STEP..],[STEP..]]}  (producer threads running concurrently, joined afterwards)
//!       | {"shutdown":true}
//! Result: sessions (logs in creation order, with the session id seen by marks), names of the started sessions -> log index,
//!         sends (per producer: [producer, seq, target, event name, t_us]), panics, stalls, final configurations.

use crate::rec::{set_cur, Rec, RunCtx, SessLog};
use crate::run::{json_to_data, make_actions, make_event, take_panics_for};
use rufsm::fsm::{self, Event, FinishMode, ParamPair};
use rufsm::fsm_executor::FsmExecutor;
use serde_json::{json, Value};
use std::collections::HashMap;
use std::sync::mpsc::Sender;
use std::sync::{Arc, Mutex};
use std::time::{Duration, Instant};

struct Started {
    log: Arc<SessLog>,
    sender: Sender<Box<Event>>,
    session_id: u32,
    thread: Option<std::thread::JoinHandle<()>>,
    tname: String,
}

struct Started2 {
    session_id: u32,
    tname: String,
}

struct Shared {
    ctx: Arc<RunCtx>,
    senders: Mutex<HashMap<String, Sender<Box<Event>>>>,
    sends: Mutex<Vec<Value>>,
    /// session ids of the started sessions, for "$sid:NAME" placeholders in event payloads
    sids: Mutex<HashMap<String, u32>>,
    /// HTTP requests made by "post" steps: [tag, status (0 = transport error), body or error text, t_us before, t_us after]
    posts: Mutex<Vec<Value>>,
}

/// application/x-www-form-urlencoded, written here (not by the client library) so that the scenario controls the spelling:
/// mode "plus" encodes a blank as '+', mode "pct" as %20; unreserved characters stay, everything else is %XX of its UTF-8 bytes.
fn form_encode(s: &str, plus: bool) -> String {
    let mut o = String::new();
    for b in s.bytes() {
        match b {
            b'A'..=b'Z' | b'a'..=b'z' | b'0'..=b'9' | b'-' | b'_' | b'.' | b'~' => o.push(b as char),
            b' ' if plus => o.push('+'),
            _ => o.push_str(&format!("%{:02X}", b)),
        }
    }
    o
}

fn do_post(sh: &Arc<Shared>, st: &Value) {
    let tag = st.get("tag").cloned().unwrap_or(Value::Null);
    let to = st.get("post").and_then(|x| x.as_str()).unwrap_or("");
    let path = if let Some(n) = to.strip_prefix("raw:") {
        n.to_string()
    } else {
        match sh.sids.lock().unwrap().get(to) {
            Some(id) => id.to_string(),
            None => to.to_string(),
        }
    };
    let plus = st.get("plus").and_then(|x| x.as_bool()).unwrap_or(true);
    let body = match st.get("body").and_then(|x| x.as_str()) {
        Some(b) => b.to_string(),
        None => {
            let mut parts = Vec::new();
            if let Some(Value::Array(fs)) = st.get("fields") {
                for f in fs {
                    let k = f.get(0).and_then(|x| x.as_str()).unwrap_or("");
                    let v = f.get(1).and_then(|x| x.as_str()).unwrap_or("");
                    parts.push(format!("{}={}", form_encode(k, plus), form_encode(v, plus)));
                }
            }
            parts.join("&")
        }
    };
    let url = format!("http://127.0.0.1:5555/scxml/{}", path);
    let t0 = sh.ctx.us();
    let r = ureq::post(&url).set("Content-Type", "application/x-www-form-urlencoded").timeout(Duration::from_secs(10)).send_string(&body);
    let t1 = sh.ctx.us();
    let rec = match r {
        Ok(resp) => {
            let code = resp.status();
            json!([tag, code, resp.into_string().unwrap_or_default(), t0, t1])
        }
        Err(ureq::Error::Status(code, resp)) => json!([tag, code, resp.into_string().unwrap_or_default(), t0, t1]),
        Err(e) => json!([tag, 0, format!("{}", e), t0, t1]),
    };
    sh.posts.lock().unwrap().push(rec);
}

fn substitute(v: &Value, sids: &HashMap<String, u32>) -> Value {
    match v {
        Value::String(s) => {
            if let Some(name) = s.strip_prefix("$sid:") {
                match sids.get(name) {
                    Some(id) => json!(*id),
                    None => v.clone(),
                }
            } else {
                v.clone()
            }
        }
        Value::Array(a) => Value::Array(a.iter().map(|x| substitute(x, sids)).collect()),
        Value::Object(o) => Value::Object(o.iter().map(|(k, x)| (k.clone(), substitute(x, sids))).collect()),
        _ => v.clone(),
    }
}

fn total_records(ctx: &RunCtx) -> usize {
    ctx.sessions.lock().unwrap().iter().map(|l| l.recs.lock().unwrap().len()).sum()
}

fn settle(ctx: &RunCtx, quiet_ms: u64, deadline: Instant) {
    let mut last = total_records(ctx);
    let mut since = Instant::now();
    while Instant::now() < deadline {
        std::thread::sleep(Duration::from_millis(2));
        let n = total_records(ctx);
        if n != last {
            last = n;
            since = Instant::now();
        } else if since.elapsed() >= Duration::from_millis(quiet_ms) {
            return;
        }
    }
}

struct StartEnv {
    executor: FsmExecutor,
    defs: Vec<Value>,
    dir: String,
    started: Mutex<HashMap<String, Started>>,
    names: Mutex<Vec<Value>>,
    errors: Mutex<Vec<Value>>,
}

fn start_session(sh: &Arc<Shared>, env: &Arc<StartEnv>, name: &str) {
    let ctx = &sh.ctx;
    let def = env.defs.iter().find(|d| d.get("name").and_then(|x| x.as_str()) == Some(name));
    let Some(def) = def else {
        env.errors.lock().unwrap().push(json!(format!("unknown session {}", name)));
        return;
    };
    let xml = def.get("xml").and_then(|x| x.as_str()).unwrap_or("");
    let entry = def.get("entry").and_then(|x| x.as_str()).unwrap_or("start");
    let mut data = Vec::new();
    if let Some(Value::Object(o)) = def.get("data") {
        for (k, v) in o {
            data.push(ParamPair::new(k, &json_to_data(v)));
        }
    }
    let mut executor = env.executor.clone();
    if entry == "execute" {
        // through FsmExecutor::execute: the Fsm (and its tracer) is created inside the library
        let path = format!("{}/{}.scxml", env.dir, name);
        let _ = std::fs::write(&path, xml);
        let dummy = ctx.new_session();
        set_cur(ctx, &dummy);
        let before = ctx.sessions.lock().unwrap().len();
        let r = std::panic::catch_unwind(std::panic::AssertUnwindSafe(|| {
            // (the reader resolves names relative to the include paths; absolute paths are not supported by it)
            executor.execute(&format!("{}.scxml", name), make_actions(), rufsm::tracer::TraceMode::ALL)
        }));
        crate::rec::clear_cur();
        match r {
            Ok(Ok(session)) => {
                // the tracer created for this Fsm is the first log created by this thread after `before`
                let log = ctx.sessions.lock().unwrap().iter().skip(before).find(|l| {
                    l.owner.lock().unwrap().as_deref() == Some(std::thread::current().name().unwrap_or("?"))
                }).cloned();
                if let Some(log) = log {
                    let tname = session.thread.as_ref().map(|t| t.thread().name().unwrap_or("?").to_string()).unwrap_or_default();
                    sh.senders.lock().unwrap().insert(name.to_string(), session.sender.clone());
                    sh.sids.lock().unwrap().insert(name.to_string(), session.session_id);
                    env.names.lock().unwrap().push(json!([name, log.idx, session.session_id]));
                    env.started.lock().unwrap().insert(name.to_string(), Started { log, sender: session.sender.clone(), session_id: session.session_id, thread: session.thread, tname });
                } else {
                    env.errors.lock().unwrap().push(json!(format!("no tracer created for {}", name)));
                }
            }
            Ok(Err(e)) => env.errors.lock().unwrap().push(json!(format!("execute {} failed: {}", name, e))),
            Err(_) => env.errors.lock().unwrap().push(json!(format!("execute {} panicked: {}", name,
                take_panics_for(std::thread::current().name().unwrap_or("?")).join("; ")))),
        }
    } else {
        match crate::run::parse_guarded(xml, &[std::path::PathBuf::from(&env.dir)]) {
            Err(e) => env.errors.lock().unwrap().push(json!(format!("parse {}: {}", name, e))),
            Ok(mut fsm) => {
                let log = ctx.new_session();
                fsm.tracer = Box::new(Rec { ctx: ctx.clone(), log: log.clone(), start_gate: false });
                let session = fsm::start_fsm_with_data_and_finish_mode(
                    fsm, make_actions(), Box::new(executor.clone()), &data, FinishMode::KEEP_CONFIGURATION);
                let tname = session.thread.as_ref().map(|t| t.thread().name().unwrap_or("?").to_string()).unwrap_or_default();
                sh.senders.lock().unwrap().insert(name.to_string(), session.sender.clone());
                sh.sids.lock().unwrap().insert(name.to_string(), session.session_id);
                env.names.lock().unwrap().push(json!([name, log.idx, session.session_id]));
                env.started.lock().unwrap().insert(name.to_string(), Started { log, sender: session.sender.clone(), session_id: session.session_id, thread: session.thread, tname });
            }
        }
    }
}

fn producer_steps(sh: &Arc<Shared>, env: &Arc<StartEnv>, producer: usize, steps: &[Value]) {
    let mut seq = 0usize;
    for st in steps {
        if let Some(name) = st.get("start").and_then(|x| x.as_str()) {
            start_session(sh, env, name);
            continue;
        }
        if let Some(ms) = st.get("sleep").and_then(|x| x.as_u64()) {
            std::thread::sleep(Duration::from_millis(ms));
        } else if let Some(us) = st.get("sleep_us").and_then(|x| x.as_u64()) {
            std::thread::sleep(Duration::from_micros(us));
        } else if let Some(k) = st.get("gate").and_then(|x| x.as_i64()) {
            sh.ctx.open_gate(k);
        } else if st.get("post").is_some() {
            do_post(sh, st);
        } else if let Some(to) = st.get("send").and_then(|x| x.as_str()) {
            let sender = sh.senders.lock().unwrap().get(to).cloned();
            if let Some(s) = sender {
                let evj = substitute(st.get("event").unwrap_or(&Value::Null), &sh.sids.lock().unwrap());
                let e = make_event(&evj);
                seq += 1;
                // the record is written before the send so that it is never later than the reception
                sh.sends.lock().unwrap().push(json!([producer, seq, to, e.name, sh.ctx.us()]));
                if st.get("via").and_then(|x| x.as_str()) == Some("executor") {
                    // the public way for a host that holds no channel handle: FsmExecutor::send_to_session
                    let sid = sh.sids.lock().unwrap().get(to).copied();
                    if let Some(sid) = sid {
                        let _ = env.executor.send_to_session(sid, e);
                    }
                } else {
                    let _ = s.send(Box::new(e));
                }
            }
        }
    }
}

pub fn run_scenario(job: &Value) -> Value {
    let id = job.get("id").cloned().unwrap_or(Value::Null);
    let dir = job.get("dir").and_then(|x| x.as_str()).unwrap_or("/tmp").to_string();
    let timeout_ms = job.get("timeout_ms").and_then(|x| x.as_u64()).unwrap_or(15000);
    let deadline = Instant::now() + Duration::from_millis(timeout_ms);
    let ctx = RunCtx::new();
    let sh = Arc::new(Shared { ctx: ctx.clone(), senders: Mutex::new(HashMap::new()), sends: Mutex::new(Vec::new()), sids: Mutex::new(HashMap::new()),
                                 posts: Mutex::new(Vec::new()) });
    // with "http": the executor owns the BasicHTTP processor (rocket on the fixed port 5555, needs a tokio runtime that lives
    // as long as the scenario)
    let mut runtime: Option<tokio::runtime::Runtime> = None;
    let mut executor = if job.get("http").and_then(|x| x.as_bool()).unwrap_or(false) {
        let rt = tokio::runtime::Builder::new_multi_thread().worker_threads(4).enable_all().build().expect("tokio runtime");
        let mut started = None;
        for _attempt in 0..40 {
            // (the port of the previous scenario may still be closing)
            let free = std::net::TcpListener::bind(("127.0.0.1", 5555)).is_ok();
            if !free {
                std::thread::sleep(Duration::from_millis(100));
                continue;
            }
            let r = std::panic::catch_unwind(std::panic::AssertUnwindSafe(|| rt.block_on(FsmExecutor::new_with_io_processor())));
            let _ = take_panics_for(std::thread::current().name().unwrap_or("?"));
            if let Ok(e) = r {
                started = Some(e);
                break;
            }
            std::thread::sleep(Duration::from_millis(100));
        }
        match started {
            Some(e) => {
                runtime = Some(rt);
                e
            }
            None => {
                return json!({"id": id, "errors": ["http server did not start (port 5555 busy?)"], "tool_error": true});
            }
        }
    } else {
        FsmExecutor::new_without_io_processor()
    };
    executor.set_include_paths(&vec![std::path::PathBuf::from(&dir)]);
    if let Some(Value::Object(o)) = job.get("options") {
        let mut g = executor.state.lock().unwrap();
        for (k, v) in o {
            g.datamodel_options.insert(k.clone(), v.as_str().unwrap_or("").to_string());
        }
    }
    // auxiliary files of the scenario (documents referenced by <invoke src=..>), found through the include path
    if let Some(Value::Object(fs)) = job.get("files") {
        for (name, content) in fs {
            let _ = std::fs::write(format!("{}/{}", dir, name), content.as_str().unwrap_or(""));
        }
    }
    let es = executor.state.clone();
    // C17: lock observation (one scenario at a time per process) and steering into a predicted cycle
    let with_locks = job.get("locks").and_then(|x| x.as_bool()).unwrap_or(false);
    if with_locks {
        let mut points = Vec::new();
        if let Some(Value::Array(ps)) = job.get("points") {
            for p in ps {
                points.push(crate::locks::Point {
                    thread: p.get("thread").and_then(|x| x.as_str()).unwrap_or("").to_string(),
                    holds: Vec::new(),
                    wants: Vec::new(),
                    holds_class: p.get("holds").and_then(|x| x.as_str()).unwrap_or("").to_string(),
                    wants_class: p.get("wants").and_then(|x| x.as_str()).unwrap_or("").to_string(),
                });
            }
        }
        crate::locks::set_slow(job.get("slow").and_then(|x| x.as_array()).map(|a| {
            (a.first().and_then(|x| x.as_str()).unwrap_or("").to_string(), a.get(1).and_then(|x| x.as_str()).unwrap_or("").to_string(),
             a.get(2).and_then(|x| x.as_u64()).unwrap_or(0))
        }));
        crate::locks::begin(points);
    }
    let empty = Vec::new();
    let defs = job.get("sessions").and_then(|x| x.as_array()).unwrap_or(&empty);
    let env = Arc::new(StartEnv { executor: executor.clone(), defs: defs.clone(), dir: dir.clone(), started: Mutex::new(HashMap::new()),
                                  names: Mutex::new(Vec::new()), errors: Mutex::new(Vec::new()) });
    let mut errors: Vec<Value> = Vec::new();

    // the steps run on their own thread: a host call that blocks forever (deadlock inside the library) must not take
    // the harness with it
    let steps: Vec<Value> = job.get("steps").and_then(|x| x.as_array()).cloned().unwrap_or_default();
    let step_errors: Arc<Mutex<Vec<Value>>> = Arc::new(Mutex::new(Vec::new()));
    let host_blocked;
    {
        let sh = sh.clone();
        let env = env.clone();
        let ctx = ctx.clone();
        let step_errors = step_errors.clone();
        let mut executor = executor.clone();
        let tn = format!("{}_steps", std::thread::current().name().unwrap_or("scen"));
        let h = std::thread::Builder::new().name(tn).spawn(move || {
            for st in &steps {
                if Instant::now() >= deadline {
                    step_errors.lock().unwrap().push(json!("scenario deadline reached"));
                    break;
                }
                if let Some(name) = st.get("start").and_then(|x| x.as_str()) {
                    start_session(&sh, &env, name);
                } else if let Some(groups) = st.get("threads").and_then(|x| x.as_array()) {
                    let mut hs = Vec::new();
                    for (pi, g) in groups.iter().enumerate() {
                        let sh2 = sh.clone();
                        let env2 = env.clone();
                        let steps: Vec<Value> = g.as_array().cloned().unwrap_or_default();
                        hs.push(std::thread::Builder::new().name(format!("producer_{}", pi + 1)).spawn(move || {
                            producer_steps(&sh2, &env2, pi + 1, &steps);
                        }).unwrap());
                    }
                    for h in hs {
                        let _ = h.join();
                    }
                } else if let Some(ms) = st.get("settle").and_then(|x| x.as_u64()) {
                    settle(&ctx, ms, deadline);
                } else if st.get("barrier").is_some() {
                    // every running top-level session has processed everything that was in its queue: a marker event is
                    // sent to each and awaited in its log; twice, because processing may have produced sends to the others
                    for round in 0..2 {
                        let marker = format!("__sync.{}.{}", ctx.us(), round);
                        let targets: Vec<(String, Arc<SessLog>, Sender<Box<Event>>)> = env
                            .started
                            .lock()
                            .unwrap()
                            .iter()
                            .filter(|(_, s)| s.thread.as_ref().map(|t| !t.is_finished()).unwrap_or(false))
                            .map(|(n, s)| (n.clone(), s.log.clone(), s.sender.clone()))
                            .collect();
                        for (_, _, snd) in &targets {
                            let _ = snd.send(Box::new(Event::new_simple(&marker)));
                        }
                        for (name, log, _) in &targets {
                            while Instant::now() < deadline {
                                let seen = log.recs.lock().unwrap().iter().rev().take(400).any(|r| {
                                    r.get(0).and_then(|x| x.as_str()) == Some("XR")
                                        && r.get(1).and_then(|e| e.get("name")).and_then(|x| x.as_str()) == Some(marker.as_str())
                                }) || *log.ended.lock().unwrap();
                                let gone = env.started.lock().unwrap().get(name).map(|s| s.thread.as_ref().map(|t| t.is_finished()).unwrap_or(true)).unwrap_or(true);
                                if seen || gone {
                                    break;
                                }
                                std::thread::sleep(Duration::from_millis(1));
                            }
                        }
                    }
                } else if let Some(name) = st.get("await_xr").and_then(|x| x.as_str()) {
                    // until the session has dequeued an external event of that name (at most max_ms: the event may never come)
                    let ev = st.get("name").and_then(|x| x.as_str()).unwrap_or("").to_string();
                    let max_ms = st.get("max_ms").and_then(|x| x.as_u64()).unwrap_or(3000);
                    let until = Instant::now() + Duration::from_millis(max_ms);
                    let log = env.started.lock().unwrap().get(name).map(|s| s.log.clone());
                    if let Some(log) = log {
                        while Instant::now() < until && Instant::now() < deadline {
                            let seen = log.recs.lock().unwrap().iter().rev().take(5000).any(|r| {
                                r.get(0).and_then(|x| x.as_str()) == Some("XR")
                                    && r.get(1).and_then(|e| e.get("name")).and_then(|x| x.as_str()) == Some(ev.as_str())
                            });
                            if seen || *log.ended.lock().unwrap() {
                                break;
                            }
                            std::thread::sleep(Duration::from_millis(1));
                        }
                    }
                } else if let Some(name) = st.get("await_end").and_then(|x| x.as_str()) {
                    // until the session's thread has ended (bounded by the scenario deadline)
                    while Instant::now() < deadline {
                        let done = match env.started.lock().unwrap().get(name) {
                            Some(s) => s.thread.as_ref().map(|t| t.is_finished()).unwrap_or(true),
                            None => true,
                        };
                        if done {
                            break;
                        }
                        std::thread::sleep(Duration::from_millis(1));
                    }
                } else if let Some(name) = st.get("cancel").and_then(|x| x.as_str()) {
                    if let Some(s) = env.started.lock().unwrap().get(name) {
                        let _ = s.sender.send(Box::new(Event::new_simple(fsm::EVENT_CANCEL_SESSION)));
                    }
                } else if st.get("shutdown").is_some() {
                    let r = std::panic::catch_unwind(std::panic::AssertUnwindSafe(|| executor.shutdown()));
                    if r.is_err() {
                        step_errors.lock().unwrap().push(json!("shutdown panicked"));
                    }
                } else {
                    producer_steps(&sh, &env, 0, std::slice::from_ref(st));
                }
            }
        }).unwrap();
        while !h.is_finished() && Instant::now() < deadline + Duration::from_millis(500) {
            std::thread::sleep(Duration::from_millis(1));
        }
        host_blocked = !h.is_finished();
        if !host_blocked {
            let _ = h.join();
        }
    }
    errors.extend(step_errors.lock().unwrap().iter().cloned());
    // end: cancel everything that is still running, then wait for the top-level threads
    let horizon = ctx.us();
    let mut lock_names = serde_json::Map::new();
    if with_locks {
        lock_names.insert("E".to_string(), json!(es.arc.verif_id()));
        if let Ok(st) = es.arc.try_lock() {
            for (k, p) in st.processors.iter().enumerate() {
                lock_names.insert(format!("P{}", k + 1), json!(p.verif_id()));
            }
        }
        for (name, s) in env.started.try_lock().map(|g| g.iter().map(|(k, v)| (k.clone(), (v.session_id, v.tname.clone()))).collect::<Vec<_>>()).unwrap_or_default().iter() {
            let s = &Started2 { session_id: s.0, tname: s.1.clone() };
            if let Ok(st) = es.arc.try_lock() {
                if let Some(sess) = st.sessions.get(&s.session_id) {
                    lock_names.insert(format!("G:{}", name), json!(sess.global_data.verif_id()));
                }
            }
            lock_names.insert(format!("T:{}", name), json!(s.tname));
        }
    }
    let mut started = match env.started.try_lock() {
        Ok(mut g) => std::mem::take(&mut *g),
        Err(_) => HashMap::new(),
    };
    let names = env.names.lock().unwrap().clone();
    errors.extend(env.errors.lock().unwrap().iter().cloned());
    for s in started.values() {
        let _ = s.sender.send(Box::new(Event::new_simple(fsm::EVENT_CANCEL_SESSION)));
    }
    let mut panics = Vec::new();
    let mut stalls = Vec::new();
    if host_blocked {
        stalls.push(json!("host"));
    }
    for (name, s) in started.iter_mut() {
        if let Some(t) = s.thread.take() {
            while !t.is_finished() && Instant::now() < deadline {
                std::thread::sleep(Duration::from_micros(300));
            }
            if t.is_finished() {
                if t.join().is_err() {
                    panics.push(json!([name, take_panics_for(&s.tname).join("; ")]));
                }
            } else {
                stalls.push(json!(name));
            }
        }
    }
    settle(&ctx, 20, Instant::now() + Duration::from_millis(500));
    // children end on their own threads: wait until every session log is closed (bounded; a loaded machine may start a
    // child's thread late, its queue is processed in order nevertheless)
    {
        let t0 = Instant::now();
        let mut last = total_records(&ctx);
        let mut since = Instant::now();
        while t0.elapsed() < Duration::from_secs(5) {
            let all = ctx.sessions.lock().unwrap().iter().all(|l| *l.ended.lock().unwrap());
            if all {
                break;
            }
            std::thread::sleep(Duration::from_millis(2));
            let n = total_records(&ctx);
            if n != last {
                last = n;
                since = Instant::now();
            } else if since.elapsed() >= Duration::from_millis(700) {
                break;
            }
        }
    }
    // child sessions that never ended
    let logs: Vec<Arc<SessLog>> = ctx.sessions.lock().unwrap().clone();
    let mut finals = serde_json::Map::new();
    if let Ok(st) = es.arc.try_lock() {
        for (name, s) in &started {
            if let Some(sess) = st.sessions.get(&s.session_id) {
                if let Ok(g) = sess.global_data.try_lock() {
                    finals.insert(name.clone(), json!(g.final_configuration));
                }
            }
        }
    }
    // panics of threads that are not top-level sessions (children, timers)
    let other_panics: Vec<Value> = {
        let mut p = crate::run::PANICS.lock().unwrap();
        let v: Vec<Value> = p.iter().filter(|(n, _)| n.starts_with("fsm_") || n.contains("Timer")).map(|(n, m)| json!([n, m])).collect();
        p.retain(|(n, _)| !(n.starts_with("fsm_") || n.contains("Timer")));
        v
    };
    for k in -1..32 {
        ctx.open_gate(k);
    }
    let lock_report = if with_locks {
        let mut v = crate::locks::end();
        crate::locks::set_slow(None);
        v["names"] = Value::Object(lock_names);
        v
    } else {
        Value::Null
    };
    if let Some(rt) = runtime.take() {
        let _ = std::panic::catch_unwind(std::panic::AssertUnwindSafe(|| executor.shutdown()));
        rt.shutdown_timeout(Duration::from_secs(3));
    }
    json!({
        "id": id,
        "sessions": logs.iter().map(|l| crate::run::sess_json(l)).collect::<Vec<_>>(),
        "names": names,
        "sends": *sh.sends.lock().unwrap(),
        "panics": panics, "other_panics": other_panics, "stalls": stalls, "errors": errors,
        "finals": Value::Object(finals),
        "gate_timeouts": *ctx.gate_timeouts.lock().unwrap(),
        "horizon": horizon,
        "posts": *sh.posts.lock().unwrap(),
        "locks": lock_report,
    })
}

pub fn run_file(input: &str, output: &str, threads: usize) -> std::io::Result<()> {
    use std::io::{BufRead, Write};
    let f = std::fs::File::open(input)?;
    let jobs: Vec<String> = std::io::BufReader::new(f).lines().map_while(Result::ok).filter(|l| !l.trim().is_empty()).collect();
    let jobs = Arc::new(Mutex::new(jobs.into_iter().rev().collect::<Vec<String>>()));
    let out = Arc::new(Mutex::new(std::io::BufWriter::new(std::fs::File::create(output)?)));
    let mut hs = Vec::new();
    for w in 0..threads.max(1) {
        let jobs = jobs.clone();
        let out = out.clone();
        hs.push(std::thread::Builder::new().name(format!("scen_{}", w)).spawn(move || loop {
            let j = { jobs.lock().unwrap().pop() };
            let Some(line) = j else { break };
            let job: Value = serde_json::from_str(&line).unwrap_or(json!({}));
            let r = match std::panic::catch_unwind(|| run_scenario(&job)) {
                Ok(r) => r,
                Err(_) => json!({"id": job.get("id"), "harness_panic": take_panics_for(std::thread::current().name().unwrap_or("?"))}),
            };
            let mut o = out.lock().unwrap();
            let _ = writeln!(o, "{}", r);
        }).unwrap());
    }
    for h in hs {
        let _ = h.join();
    }
    let r = out.lock().unwrap().flush();
    r
}
