//! `vh run`: runs real sessions on SCXML text with recording tracer/actions and writes traces.

use crate::rec::{Guard, Hold, Mark, Now, Rec, RunCtx, SessLog};
use rufsm::actions::ActionWrapper;
use rufsm::datamodel::Data;
use rufsm::fsm::{self, Event, FinishMode, Fsm, ParamPair};
use rufsm::fsm_executor::FsmExecutor;
use rufsm::scxml_reader;
use serde_json::{json, Value};
use std::collections::HashMap;
use std::sync::{Arc, Mutex};
use std::time::{Duration, Instant};

/// Per-thread panic messages captured by the global panic hook (thread name -> message).
pub static PANICS: Mutex<Vec<(String, String)>> = Mutex::new(Vec::new());

pub fn install_panic_hook() {
    std::panic::set_hook(Box::new(|info| {
        let t = std::thread::current();
        let name = t.name().unwrap_or("?").to_string();
        let msg = if let Some(s) = info.payload().downcast_ref::<&str>() {
            s.to_string()
        } else if let Some(s) = info.payload().downcast_ref::<String>() {
            s.clone()
        } else {
            "panic".to_string()
        };
        let loc = info
            .location()
            .map(|l| format!("{}:{}", l.file(), l.line()))
            .unwrap_or_default();
        if let Ok(mut p) = PANICS.lock() {
            p.push((name, format!("{} @ {}", msg, loc)));
        }
    }));
}

pub fn take_panics_for(thread_name: &str) -> Vec<String> {
    let mut p = PANICS.lock().unwrap();
    let mut out = Vec::new();
    p.retain(|(n, m)| {
        if n == thread_name {
            out.push(m.clone());
            false
        } else {
            true
        }
    });
    out
}

pub fn make_actions() -> ActionWrapper {
    let mut actions = ActionWrapper::new();
    actions.add_action("mark", Box::new(Mark {}));
    actions.add_action("g", Box::new(Guard {}));
    actions.add_action("hold", Box::new(Hold {}));
    actions.add_action("now", Box::new(Now {}));
    actions
}

pub fn json_to_data(v: &Value) -> Data {
    match v {
        Value::Null => Data::Null(),
        Value::Bool(b) => Data::Boolean(*b),
        Value::Number(n) => {
            if let Some(i) = n.as_i64() {
                Data::Integer(i)
            } else {
                Data::Double(n.as_f64().unwrap_or(0.0))
            }
        }
        Value::String(s) => Data::String(s.clone()),
        Value::Array(a) => Data::Array(a.iter().map(|x| rufsm::datamodel::create_data_arc(json_to_data(x))).collect()),
        Value::Object(o) => {
            let mut m = HashMap::new();
            for (k, x) in o {
                m.insert(k.clone(), rufsm::datamodel::create_data_arc(json_to_data(x)));
            }
            Data::Map(m)
        }
    }
}

pub fn make_event(v: &Value) -> Event {
    match v {
        Value::String(s) => Event::new_simple(s),
        Value::Object(o) => {
            let mut e = Event::new_simple(o.get("name").and_then(|x| x.as_str()).unwrap_or(""));
            if let Some(Value::Object(p)) = o.get("params") {
                let mut pv = Vec::new();
                for (k, x) in p {
                    pv.push(ParamPair::new(k, &json_to_data(x)));
                }
                e.param_values = Some(pv);
            }
            if let Some(c) = o.get("content") {
                e.content = Some(json_to_data(c));
            }
            if let Some(Value::String(s)) = o.get("sendid") {
                e.sendid = Some(s.clone());
            }
            if let Some(Value::String(s)) = o.get("invokeid") {
                e.invoke_id = Some(s.clone());
            }
            if let Some(Value::String(s)) = o.get("origin") {
                e.origin = Some(s.clone());
            }
            if let Some(Value::String(s)) = o.get("origintype") {
                e.origin_type = Some(s.clone());
            }
            e
        }
        _ => Event::new_simple(""),
    }
}

/// transition id -> [source state name, kind ("t" ordinary / "i" initial), index within the state's list]
pub fn transition_map(fsm: &Fsm) -> Value {
    let mut m = serde_json::Map::new();
    for s in &fsm.states {
        let mut ts: Vec<&fsm::Transition> = s.transitions.iterator().map(|t| fsm.get_transition_by_id(*t)).collect();
        ts.sort_by_key(|t| t.doc_id);
        for (i, t) in ts.iter().enumerate() {
            m.insert(t.id.to_string(), json!([s.name, "t", i]));
        }
        if s.initial != 0 {
            m.insert(s.initial.to_string(), json!([s.name, "i", 0]));
        }
    }
    Value::Object(m)
}

pub fn sess_json(l: &SessLog) -> Value {
    json!({
        "idx": l.idx,
        "sid": *l.session_id.lock().unwrap(),
        "ended": *l.ended.lock().unwrap(),
        "recs": Value::Array(l.recs.lock().unwrap().clone()),
    })
}

fn wait_idle_or_end(log: &SessLog, target_idle: u64, deadline: Instant) -> bool {
    let mut c = log.idle_count.lock().unwrap();
    loop {
        if *c >= target_idle || *log.ended.lock().unwrap() {
            return true;
        }
        let now = Instant::now();
        if now >= deadline {
            return false;
        }
        let (nc, _) = log.idle_cv.wait_timeout(c, (deadline - now).min(Duration::from_millis(50))).unwrap();
        c = nc;
    }
}

pub fn parse_guarded(xml: &str, include: &[std::path::PathBuf]) -> Result<Box<Fsm>, String> {
    let x = xml.to_string();
    let inc = include.to_vec();
    match std::panic::catch_unwind(move || scxml_reader::parse_from_xml_with_includes(x, &inc)) {
        Ok(r) => r,
        Err(_) => {
            let msgs = take_panics_for(std::thread::current().name().unwrap_or("?"));
            Err(format!("reader panic: {}", msgs.join("; ")))
        }
    }
}

/// Runs one job. See tools/check.py for the job format.
pub fn run_job(job: &Value) -> Value {
    let id = job.get("id").cloned().unwrap_or(Value::Null);
    let xml = job.get("xml").and_then(|x| x.as_str()).unwrap_or("");
    let mode = job.get("mode").and_then(|x| x.as_str()).unwrap_or("preload");
    let timeout_ms = job.get("timeout_ms").and_then(|x| x.as_u64()).unwrap_or(10000);
    let roundtrip = job.get("roundtrip").and_then(|x| x.as_bool()).unwrap_or(false);
    let send_cancel = job.get("cancel").and_then(|x| x.as_bool()).unwrap_or(true);
    let empty = Vec::new();
    let events = job.get("events").and_then(|x| x.as_array()).unwrap_or(&empty);
    let include: Vec<std::path::PathBuf> = job
        .get("include")
        .and_then(|x| x.as_array())
        .map(|a| a.iter().filter_map(|p| p.as_str()).map(std::path::PathBuf::from).collect())
        .unwrap_or_default();

    let mut fsm = match parse_guarded(xml, &include) {
        Ok(f) => f,
        Err(e) => return json!({"id": id, "parse_error": e}),
    };
    if roundtrip {
        match crate::ser::roundtrip(&fsm) {
            Ok(f) => fsm = f,
            Err(e) => return json!({"id": id, "roundtrip_error": e}),
        }
    }
    let tmap = transition_map(&fsm);
    let ctx = RunCtx::new();
    let log = ctx.new_session();
    fsm.tracer = Box::new(Rec { ctx: ctx.clone(), log: log.clone(), start_gate: mode == "preload" });

    let mut executor = FsmExecutor::new_without_io_processor();
    if let Some(Value::Object(o)) = job.get("options") {
        let mut g = executor.state.lock().unwrap();
        for (k, v) in o {
            g.datamodel_options.insert(k.clone(), v.as_str().unwrap_or("").to_string());
        }
    }
    executor.set_include_paths(&include);
    let es = executor.state.clone();
    let mut data = Vec::new();
    if let Some(Value::Object(o)) = job.get("data") {
        for (k, v) in o {
            data.push(ParamPair::new(k, &json_to_data(v)));
        }
    }
    let session = fsm::start_fsm_with_data_and_finish_mode(
        fsm,
        make_actions(),
        Box::new(executor),
        &data,
        FinishMode::KEEP_CONFIGURATION,
    );
    let sender = session.sender.clone();
    let session_id = session.session_id;
    let thread = session.thread.unwrap();
    let tname = thread.thread().name().unwrap_or("?").to_string();
    let deadline = Instant::now() + Duration::from_millis(timeout_ms);
    let mut stall = false;
    let mut sent = Vec::new();

    let send_one = |ev: &Value, sent: &mut Vec<Value>| {
        if let Some(ms) = ev.get("sleep").and_then(|x| x.as_u64()) {
            std::thread::sleep(Duration::from_millis(ms));
        } else if let Some(k) = ev.get("gate").and_then(|x| x.as_i64()) {
            ctx.open_gate(k);
        } else {
            let e = make_event(ev);
            sent.push(json!([ctx.us(), e.name]));
            let _ = sender.send(Box::new(e));
        }
    };

    if mode == "preload" {
        for ev in events {
            send_one(ev, &mut sent);
        }
        if send_cancel {
            let _ = sender.send(Box::new(Event::new_simple(fsm::EVENT_CANCEL_SESSION)));
        }
        ctx.open_gate(-1);
    } else {
        // step mode: one event at a time, each after the session became idle
        let mut idle_target = 1u64;
        for ev in events {
            if !wait_idle_or_end(&log, idle_target, deadline) {
                stall = true;
                break;
            }
            if *log.ended.lock().unwrap() {
                break;
            }
            let is_event = ev.get("sleep").is_none() && ev.get("gate").is_none();
            send_one(ev, &mut sent);
            if is_event {
                idle_target += 1;
            }
        }
        if !stall && send_cancel {
            if !wait_idle_or_end(&log, idle_target, deadline) {
                stall = true;
            }
            let _ = sender.send(Box::new(Event::new_simple(fsm::EVENT_CANCEL_SESSION)));
        }
    }
    // wait for the session thread
    while !thread.is_finished() {
        if Instant::now() >= deadline {
            stall = true;
            break;
        }
        std::thread::sleep(Duration::from_micros(200));
    }
    let mut panic_msg = Value::Null;
    if thread.is_finished() {
        if thread.join().is_err() {
            let msgs = take_panics_for(&tname);
            panic_msg = json!(msgs.join("; "));
        }
    } else {
        // leave the thread behind; unblock any gate it may wait for
        for k in -1..16 {
            ctx.open_gate(k);
        }
    }
    let final_cfg = match es.lock() {
        Ok(st) => match st.sessions.get(&session_id) {
            Some(s) => match s.global_data.try_lock() {
                Ok(g) => json!(g.final_configuration),
                Err(_) => json!("locked"),
            },
            None => Value::Null,
        },
        Err(_) => json!("poisoned"),
    };
    let sessions: Vec<Value> = ctx.sessions.lock().unwrap().iter().map(|l| sess_json(l)).collect();
    json!({
        "id": id,
        "sessions": sessions,
        "final": final_cfg,
        "panic": panic_msg,
        "stall": stall,
        "tmap": tmap,
        "sent": sent,
        "gate_timeouts": *ctx.gate_timeouts.lock().unwrap(),
    })
}

/// Reads jobs (one JSON per line) from `input`, runs them on `threads` worker threads, writes one
/// result line per job to `output` (order not preserved; results carry the job id).
pub fn run_file(input: &str, output: &str, threads: usize) -> std::io::Result<()> {
    use std::io::{BufRead, Write};
    let f = std::fs::File::open(input)?;
    let jobs: Vec<String> = std::io::BufReader::new(f).lines().map_while(Result::ok).filter(|l| !l.trim().is_empty()).collect();
    let jobs = Arc::new(Mutex::new(jobs.into_iter().rev().collect::<Vec<String>>()));
    let out = Arc::new(Mutex::new(std::io::BufWriter::new(std::fs::File::create(output)?)));
    let mut hs = Vec::new();
    for w in 0..threads {
        let jobs = jobs.clone();
        let out = out.clone();
        hs.push(
            std::thread::Builder::new()
                .name(format!("worker_{}", w))
                .spawn(move || loop {
                    let j = { jobs.lock().unwrap().pop() };
                    let Some(line) = j else { break };
                    let job: Value = match serde_json::from_str(&line) {
                        Ok(v) => v,
                        Err(e) => json!({"bad_job": e.to_string()}),
                    };
                    let r = match std::panic::catch_unwind(|| run_job(&job)) {
                        Ok(r) => r,
                        Err(_) => json!({"id": job.get("id"), "harness_panic": take_panics_for(std::thread::current().name().unwrap_or("?"))}),
                    };
                    let mut o = out.lock().unwrap();
                    let _ = writeln!(o, "{}", r);
                })
                .unwrap(),
        );
    }
    for h in hs {
        let _ = h.join();
    }
    out.lock().unwrap().flush()?;
    Ok(())
}
