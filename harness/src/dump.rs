//! `vh dump`: parses SCXML text (optionally through the binary format) and dumps the resulting model
//! through its public fields as JSON - the "M" side of Mirror.tla.
//!
//! Job: {"id":..,"xml":"..","include":[dirs],"roundtrip":bool}
//! Result: {"id":..,"model":{...}} | {"id":..,"parse_error":".."} | {"id":..,"roundtrip_error":".."}

use rufsm::datamodel::Data;
use rufsm::executable_content::{
    Assign, Cancel, ExecutableContent, Expression, ForEach, If, Log, Raise, Script, SendParameters,
};
use rufsm::fsm::{CommonContent, Fsm, HistoryType, Parameter, State, TransitionType};
use serde_json::{json, Value};

fn data_text(d: &Data) -> Value {
    match d {
        Data::Source(s) => json!(s.source),
        Data::None() => Value::Null,
        Data::Null() => Value::Null,
        other => json!(format!("{}", other)),
    }
}

fn params_json(p: &Option<Vec<Parameter>>) -> Value {
    match p {
        None => json!([]),
        Some(v) => Value::Array(v.iter().map(|x| json!({"name": x.name, "expr": x.expr, "location": x.location})).collect()),
    }
}

fn content_json(c: &Option<CommonContent>) -> Value {
    match c {
        None => Value::Null,
        Some(c) => json!({"content": c.content, "expr": c.content_expr}),
    }
}

fn block_json(fsm: &Fsm, id: u32, depth: usize) -> Value {
    if id == 0 {
        return Value::Null;
    }
    if depth > 64 {
        return json!("<too deep>");
    }
    match fsm.executableContent.get(&id) {
        None => json!("<missing>"),
        Some(v) => Value::Array(v.iter().map(|e| ec_json(fsm, e.as_ref(), depth + 1)).collect()),
    }
}

fn ec_json(fsm: &Fsm, e: &dyn ExecutableContent, depth: usize) -> Value {
    let a = e.as_any();
    if let Some(x) = a.downcast_ref::<If>() {
        return json!({"op": "if", "cond": data_text(&x.condition), "then": block_json(fsm, x.content, depth),
                      "else": block_json(fsm, x.else_content, depth)});
    }
    if let Some(x) = a.downcast_ref::<Expression>() {
        return json!({"op": "script", "src": data_text(&x.content)});
    }
    if let Some(x) = a.downcast_ref::<Script>() {
        return json!({"op": "scriptlist", "content": x.content.iter().map(|c| block_json(fsm, *c, depth)).collect::<Vec<_>>()});
    }
    if let Some(x) = a.downcast_ref::<Log>() {
        return json!({"op": "log", "label": x.label, "expr": data_text(&x.expression)});
    }
    if let Some(x) = a.downcast_ref::<ForEach>() {
        return json!({"op": "foreach", "array": data_text(&x.array), "item": x.item, "index": x.index,
                      "body": block_json(fsm, x.content, depth)});
    }
    if let Some(x) = a.downcast_ref::<Raise>() {
        return json!({"op": "raise", "event": x.event});
    }
    if let Some(x) = a.downcast_ref::<Cancel>() {
        return json!({"op": "cancel", "sendid": x.send_id, "sendidexpr": data_text(&x.send_id_expr)});
    }
    if let Some(x) = a.downcast_ref::<Assign>() {
        return json!({"op": "assign", "location": data_text(&x.location), "expr": data_text(&x.expr)});
    }
    if let Some(x) = a.downcast_ref::<SendParameters>() {
        return json!({"op": "send", "id": x.name, "idlocation": x.name_location, "event": data_text(&x.event),
            "eventexpr": data_text(&x.event_expr), "target": data_text(&x.target), "targetexpr": data_text(&x.target_expr),
            "type": data_text(&x.type_value), "typeexpr": data_text(&x.type_expr), "delay_ms": x.delay_ms,
            "delayexpr": data_text(&x.delay_expr), "namelist": x.name_list, "params": params_json(&x.params),
            "content": content_json(&x.content), "parent_state": x.parent_state_name});
    }
    json!({"op": "?", "type": e.get_type()})
}

fn state_name(fsm: &Fsm, id: u32) -> Value {
    if id == 0 || id as usize > fsm.states.len() {
        json!("")
    } else {
        json!(fsm.get_state_by_id(id).name)
    }
}

fn transition_json(fsm: &Fsm, tid: u32) -> Value {
    match fsm.transitions.get(&tid) {
        None => json!({"missing": tid}),
        Some(t) => json!({
            "doc_id": t.doc_id, "events": t.events, "wildcard": t.wildcard, "cond": data_text(&t.cond),
            "source": state_name(fsm, t.source),
            "targets": t.target.iter().map(|s| state_name(fsm, *s)).collect::<Vec<_>>(),
            "internal": t.transition_type == TransitionType::Internal,
            "content": block_json(fsm, t.content, 0),
        }),
    }
}

fn state_json(fsm: &Fsm, s: &State) -> Value {
    let kind = if s.id == fsm.pseudo_root {
        "root"
    } else if s.history_type != HistoryType::None {
        "history"
    } else if s.is_final {
        "final"
    } else if s.is_parallel {
        "parallel"
    } else {
        "state"
    };
    let mut trans: Vec<u32> = s.transitions.iterator().cloned().collect();
    trans.sort_by_key(|t| fsm.transitions.get(t).map(|x| x.doc_id).unwrap_or(0));
    let mut kids: Vec<u32> = s.states.clone();
    kids.sort_by_key(|k| fsm.get_state_by_id(*k).doc_id);
    let mut hist: Vec<u32> = s.history.iterator().cloned().collect();
    hist.sort_by_key(|k| fsm.get_state_by_id(*k).doc_id);
    let mut data = serde_json::Map::new();
    let mut keys: Vec<&String> = s.data.keys().collect();
    keys.sort();
    for k in keys {
        let v = s.data.get(k).unwrap();
        data.insert(k.clone(), match v.arc.try_lock() {
            Ok(d) => data_text(&d),
            Err(_) => json!("<locked>"),
        });
    }
    let mut invokes: Vec<&rufsm::fsm::Invoke> = s.invoke.iterator().collect();
    invokes.sort_by_key(|i| i.doc_id);
    json!({
        "name": s.name, "doc_id": s.doc_id, "kind": kind,
        "htype": match s.history_type { HistoryType::Deep => "deep", HistoryType::Shallow => "shallow", HistoryType::None => "" },
        "is_parallel": s.is_parallel, "is_final": s.is_final,
        "parent": state_name(fsm, s.parent),
        "children": kids.iter().map(|k| state_name(fsm, *k)).collect::<Vec<_>>(),
        "children_stored": s.states.iter().map(|k| state_name(fsm, *k)).collect::<Vec<_>>(),
        "history": hist.iter().map(|k| state_name(fsm, *k)).collect::<Vec<_>>(),
        "initial": if s.initial == 0 { Value::Null } else { transition_json(fsm, s.initial) },
        "onentry": s.onentry.iter().map(|c| block_json(fsm, *c, 0)).collect::<Vec<_>>(),
        "onexit": s.onexit.iter().map(|c| block_json(fsm, *c, 0)).collect::<Vec<_>>(),
        "transitions": trans.iter().map(|t| transition_json(fsm, *t)).collect::<Vec<_>>(),
        "data": Value::Object(data),
        "invoke": invokes.iter().map(|i| json!({
            "id": i.invoke_id, "idlocation": i.external_id_location, "type": data_text(&i.type_name),
            "typeexpr": data_text(&i.type_expr), "src": data_text(&i.src), "srcexpr": data_text(&i.src_expr),
            "namelist": i.name_list, "autoforward": i.autoforward, "params": params_json(&i.params),
            "content": content_json(&i.content), "finalize": block_json(fsm, i.finalize, 0),
            "parent_state": i.parent_state_name,
        })).collect::<Vec<_>>(),
        "donedata": match &s.donedata { None => Value::Null, Some(d) => json!({"content": content_json(&d.content), "params": params_json(&d.params)}) },
    })
}

pub fn model_json(fsm: &Fsm) -> Value {
    let mut states: Vec<&State> = fsm.states.iter().collect();
    states.sort_by_key(|s| s.doc_id);
    json!({
        "name": fsm.name, "datamodel": fsm.datamodel, "version": fsm.version,
        "binding": match fsm.binding { rufsm::fsm::BindingType::Early => "early", rufsm::fsm::BindingType::Late => "late" },
        "root": state_name(fsm, fsm.pseudo_root),
        "script": block_json(fsm, fsm.script, 0),
        "states": states.iter().map(|s| state_json(fsm, s)).collect::<Vec<_>>(),
        "n_transitions": fsm.transitions.len(),
        "n_blocks": fsm.executableContent.len(),
    })
}

pub fn run_file(input: &str, output: &str) -> std::io::Result<()> {
    use std::io::{BufRead, Write};
    let f = std::fs::File::open(input)?;
    let mut out = std::io::BufWriter::new(std::fs::File::create(output)?);
    for line in std::io::BufReader::new(f).lines().map_while(Result::ok) {
        if line.trim().is_empty() {
            continue;
        }
        let job: Value = serde_json::from_str(&line).unwrap_or(json!({}));
        let id = job.get("id").cloned().unwrap_or(Value::Null);
        let xml = job.get("xml").and_then(|x| x.as_str()).unwrap_or("");
        let include: Vec<std::path::PathBuf> = job
            .get("include")
            .and_then(|x| x.as_array())
            .map(|a| a.iter().filter_map(|p| p.as_str()).map(std::path::PathBuf::from).collect())
            .unwrap_or_default();
        let roundtrip = job.get("roundtrip").and_then(|x| x.as_bool()).unwrap_or(false);
        let res = match crate::run::parse_guarded(xml, &include) {
            Err(e) => json!({"id": id, "parse_error": e}),
            Ok(fsm) => {
                if roundtrip {
                    match std::panic::catch_unwind(std::panic::AssertUnwindSafe(|| crate::ser::roundtrip(&fsm))) {
                        Ok(Ok(f2)) => json!({"id": id, "model": model_json(&f2)}),
                        Ok(Err(e)) => json!({"id": id, "roundtrip_error": e}),
                        Err(_) => json!({"id": id, "roundtrip_error": format!("panic: {}",
                            crate::run::take_panics_for(std::thread::current().name().unwrap_or("?")).join("; "))}),
                    }
                } else {
                    json!({"id": id, "model": model_json(&fsm)})
                }
            }
        };
        writeln!(out, "{}", res)?;
    }
    out.flush()
}
