//! vh - verification harness for BWeng20/rFSM (driven by /verif/tools/check.py).

mod dump;
mod expr;
mod locks;
mod prim;
mod rec;
mod run;
mod scen;
mod ser;

use std::env;

/// A logger that accepts everything and writes nothing: the argument expressions of the library's debug!/info!/error!
/// calls are evaluated (as they are in a default build, where these macros are println!) without producing output.
struct NullLog;
impl log::Log for NullLog {
    fn enabled(&self, _m: &log::Metadata) -> bool {
        true
    }
    fn log(&self, _r: &log::Record) {
        // (the message is not formatted: printing a huge expression tree is slow and says nothing about the properties)
    }
    fn flush(&self) {}
}
static NULL_LOG: NullLog = NullLog;

fn main() {
    let _ = log::set_logger(&NULL_LOG);
    log::set_max_level(log::LevelFilter::Trace);
    run::install_panic_hook();
    rec::install_hook();
    locks::install();
    rufsm::tracer::set_tracer_factory(Box::new(rec::RecFactory {}));
    let args: Vec<String> = env::args().collect();
    if args.len() < 2 {
        eprintln!("usage: vh <run> ...");
        std::process::exit(2);
    }
    match args[1].as_str() {
        "run" => {
            // vh run <jobs.ndjson> <out.ndjson> [threads]
            let threads = args.get(4).and_then(|s| s.parse().ok()).unwrap_or(8usize);
            if let Err(e) = run::run_file(&args[2], &args[3], threads) {
                eprintln!("run failed: {}", e);
                std::process::exit(2);
            }
        }
        "dump" => {
            if let Err(e) = dump::run_file(&args[2], &args[3]) {
                eprintln!("dump failed: {}", e);
                std::process::exit(2);
            }
        }
        "prim" | "cut" => {
            if let Err(e) = prim::run_file(&args[1], &args[2], &args[3]) {
                eprintln!("{} failed: {}", args[1], e);
                std::process::exit(2);
            }
        }
        "scen" => {
            let threads = args.get(4).and_then(|s| s.parse().ok()).unwrap_or(4usize);
            if let Err(e) = scen::run_file(&args[2], &args[3], threads) {
                eprintln!("scen failed: {}", e);
                std::process::exit(2);
            }
        }
        "expr" => {
            // vh expr <jobs.ndjson> <out.ndjson>
            if let Err(e) = expr::run_file(&args[2], &args[3]) {
                eprintln!("expr failed: {}", e);
                std::process::exit(2);
            }
        }
        other => {
            eprintln!("unknown command {}", other);
            std::process::exit(2);
        }
    }
}
