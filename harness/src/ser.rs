//! Serializer helpers: in-memory write/read of the binary .rfsm format.

use rufsm::fsm::Fsm;
use rufsm::serializer::default_protocol_reader::DefaultProtocolReader;
use rufsm::serializer::default_protocol_writer::DefaultProtocolWriter;
use rufsm::serializer::fsm_reader::FsmReader;
use rufsm::serializer::fsm_writer::FsmWriter;

pub fn write_image(fsm: &Fsm) -> Result<Vec<u8>, String> {
    let mut buf: Vec<u8> = Vec::new();
    {
        let pw = DefaultProtocolWriter::new(&mut buf);
        let mut w = FsmWriter::new(Box::new(pw));
        w.write(fsm);
        w.close();
        if w.writer.has_error() {
            return Err("writer reports error".to_string());
        }
    }
    Ok(buf)
}

pub fn read_image(img: &[u8]) -> Result<Box<Fsm>, String> {
    let pr = DefaultProtocolReader::new(img);
    let mut r = FsmReader::new(Box::new(pr));
    r.read()
}

pub fn roundtrip(fsm: &Fsm) -> Result<Box<Fsm>, String> {
    let img = write_image(fsm)?;
    read_image(&img)
}
