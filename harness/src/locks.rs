//! Lock observation for C17 (instrumented mutex of /repo, cfg rfsm_verif).
//!
//! While enabled, every thread's lock operations are folded into *segments*: the sequence of acquisitions and releases
//! between two moments at which the thread holds nothing.  Distinct segments are kept per thread; they are the thread
//! programs of spec/Locks.tla.  The recorder also knows, at any moment, what each thread holds and waits for (wait-for
//! graph of a stalled scenario), and it can steer threads into a predicted cycle: a *point* names a thread (by a substring
//! of its name), a lock it must hold and the lock it is about to request; a thread arriving at a point waits (bounded)
//! until all points of the plan are occupied, then all proceed.

use serde_json::{json, Value};
use std::cell::RefCell;
use std::collections::{HashMap, HashSet};
use std::sync::atomic::{AtomicBool, Ordering};
use std::sync::{Mutex, OnceLock};
use std::time::{Duration, Instant};

#[derive(Clone, Debug)]
pub struct Point {
    pub thread: String,
    /// lock ids of which one must be held
    pub holds: Vec<usize>,
    /// lock ids of which one is requested
    pub wants: Vec<usize>,
    /// alternatively: class substrings (used when ids are not known in advance)
    pub holds_class: String,
    pub wants_class: String,
}

#[derive(Clone, Debug)]
struct Waiter {
    id: usize,
    name: String,
    held: Vec<usize>,
    wants: usize,
    go: bool,
}

#[derive(Default)]
struct ThreadState {
    held: Vec<usize>,
    wants: Option<usize>,
}

#[derive(Default)]
pub struct LockRec {
    enabled: AtomicBool,
    classes: Mutex<HashMap<usize, &'static str>>,
    /// thread name -> distinct segments; a segment = [(op, lock)], op 'a' acquire, 't' successful try, 'u' release
    segments: Mutex<HashMap<String, HashSet<Vec<(char, usize)>>>>,
    states: Mutex<HashMap<String, ThreadState>>,
    points: Mutex<Vec<Point>>,
    arrived: Mutex<Vec<Vec<Waiter>>>,
    next_waiter: std::sync::atomic::AtomicUsize,
    released: AtomicBool,
    pub rendezvous: Mutex<Vec<Value>>,
    pub arrivals: Mutex<Vec<Value>>,
    overflow: AtomicBool,
}

static REC: OnceLock<LockRec> = OnceLock::new();

/// schedule perturbation (not a rendezvous): a thread whose name contains `.0`, holding nothing, sleeps `.2` ms before it
/// requests a lock of a class containing `.1`.  Used to widen the window between the end of a session's interpreter loop
/// and the moment its Fsm (with its timer) is dropped.
static SLOW: Mutex<Option<(String, String, u64)>> = Mutex::new(None);

pub fn set_slow(v: Option<(String, String, u64)>) {
    *SLOW.lock().unwrap() = v;
}

thread_local! {
    static SEG: RefCell<Vec<(char, usize)>> = const { RefCell::new(Vec::new()) };
    static HELD: RefCell<Vec<usize>> = const { RefCell::new(Vec::new()) };
    static IN_HOOK: RefCell<bool> = const { RefCell::new(false) };
}

pub fn rec() -> &'static LockRec {
    REC.get_or_init(LockRec::default)
}

fn tname() -> String {
    // (all timer threads have the same name)
    let t = std::thread::current();
    format!("{}#{:?}", t.name().unwrap_or("?"), t.id()).replace("ThreadId(", "").replace(')', "")
}

pub fn install() {
    rufsm::verif::sync::set_lock_hook(Some(Box::new(|op, id, class| {
        let r = rec();
        if !r.enabled.load(Ordering::Relaxed) {
            return;
        }
        let reentrant = IN_HOOK.with(|f| std::mem::replace(&mut *f.borrow_mut(), true));
        if reentrant {
            return;
        }
        on_event(r, op, id, class);
        IN_HOOK.with(|f| *f.borrow_mut() = false);
    })));
}

fn on_event(r: &LockRec, op: char, id: usize, class: &'static str) {
    let name = tname();
    match op {
        'r' => {
            r.classes.lock().unwrap().entry(id).or_insert(class);
            let held: Vec<usize> = HELD.with(|h| h.borrow().clone());
            {
                let mut st = r.states.lock().unwrap();
                let e = st.entry(name.clone()).or_default();
                e.wants = Some(id);
                e.held = held.clone();
            }
            if held.is_empty() {
                let slow = SLOW.lock().unwrap().clone();
                if let Some((th, cl, ms)) = slow {
                    if name.contains(&th) && class.contains(&cl) {
                        std::thread::sleep(Duration::from_millis(ms));
                    }
                }
            }
            steer(r, &name, &held, id);
        }
        'a' | 't' => {
            r.classes.lock().unwrap().entry(id).or_insert(class);
            HELD.with(|h| h.borrow_mut().push(id));
            SEG.with(|s| s.borrow_mut().push((op, id)));
            let mut st = r.states.lock().unwrap();
            let e = st.entry(name).or_default();
            e.wants = None;
            e.held.push(id);
        }
        'u' => {
            let empty = HELD.with(|h| {
                let mut h = h.borrow_mut();
                if let Some(p) = h.iter().rposition(|x| *x == id) {
                    h.remove(p);
                }
                h.is_empty()
            });
            SEG.with(|s| s.borrow_mut().push(('u', id)));
            {
                let mut st = r.states.lock().unwrap();
                let e = st.entry(name.clone()).or_default();
                if let Some(p) = e.held.iter().rposition(|x| *x == id) {
                    e.held.remove(p);
                }
            }
            if empty {
                let seg: Vec<(char, usize)> = SEG.with(|s| std::mem::take(&mut *s.borrow_mut()));
                // plain lock/unlock pairs carry no ordering information
                if seg.len() > 2 && seg.len() <= 80 {
                    let mut all = r.segments.lock().unwrap();
                    let set = all.entry(name).or_default();
                    if set.len() < 600 {
                        set.insert(seg);
                    } else {
                        r.overflow.store(true, Ordering::Relaxed);
                    }
                } else if seg.len() > 80 {
                    r.overflow.store(true, Ordering::Relaxed);
                }
            }
        }
        _ => {}
    }
}

fn class_of(r: &LockRec, id: usize) -> &'static str {
    r.classes.lock().unwrap().get(&id).copied().unwrap_or("?")
}

fn steer(r: &LockRec, name: &str, held: &[usize], wants: usize) {
    if r.released.load(Ordering::Relaxed) {
        return;
    }
    let points = r.points.lock().unwrap().clone();
    if points.is_empty() {
        return;
    }
    let mut mine = None;
    for (k, p) in points.iter().enumerate() {
        if !name.contains(&p.thread) {
            continue;
        }
        let want_ok = if !p.wants.is_empty() { p.wants.contains(&wants) } else { class_of(r, wants).contains(&p.wants_class) };
        let hold_ok = if !p.holds.is_empty() {
            held.iter().any(|h| p.holds.contains(h))
        } else {
            held.iter().any(|h| class_of(r, *h).contains(&p.holds_class))
        };
        if want_ok && hold_ok {
            mine = Some(k);
            break;
        }
    }
    let Some(k) = mine else { return };
    let n = points.len();
    // Several threads may wait at the same point (e.g. every session thread that starts a child); a group is released as
    // soon as one thread per point is present such that what the thread at point j requests is held by the thread at j+1.
    let my_id = {
        let mut a = r.arrived.lock().unwrap();
        if a.len() != n {
            a.resize(n, Vec::new());
        }
        if a.iter().flatten().any(|w| w.name == name) {
            return;
        }
        let id = r.next_waiter.fetch_add(1, Ordering::Relaxed);
        r.arrivals.lock().unwrap().push(json!([k, name, held, wants]));
        a[k].push(Waiter { id, name: name.to_string(), held: held.to_vec(), wants, go: false });
        // look for a complete consistent group containing me
        let mut pick: Vec<usize> = vec![usize::MAX; n];
        fn search(a: &[Vec<Waiter>], j: usize, n: usize, k: usize, my_id: usize, pick: &mut Vec<usize>) -> bool {
            if j == n {
                // cycle closed: last wants must be held by first
                let last = &a[n - 1][pick[n - 1]];
                let first = &a[0][pick[0]];
                return first.held.contains(&last.wants);
            }
            for (idx, w) in a[j].iter().enumerate() {
                if w.go || (j == k && w.id != my_id) {
                    continue;
                }
                if j > 0 {
                    let prev = &a[j - 1][pick[j - 1]];
                    if !w.held.contains(&prev.wants) {
                        continue;
                    }
                }
                pick[j] = idx;
                if search(a, j + 1, n, k, my_id, pick) {
                    return true;
                }
            }
            false
        }
        if search(&a, 0, n, k, id, &mut pick) {
            for j in 0..n {
                a[j][pick[j]].go = true;
            }
        }
        id
    };
    let t0 = Instant::now();
    let mut met = false;
    while t0.elapsed() < Duration::from_millis(40) {
        {
            let a = r.arrived.lock().unwrap();
            if a.iter().flatten().any(|w| w.id == my_id && w.go) {
                met = true;
                break;
            }
        }
        if r.released.load(Ordering::Relaxed) {
            break;
        }
        std::thread::sleep(Duration::from_micros(200));
    }
    {
        let mut a = r.arrived.lock().unwrap();
        // a released group stays recorded (one-shot); a waiter that gives up leaves
        if !met {
            if let Some(list) = a.get_mut(k) {
                if let Some(w) = list.iter().find(|w| w.id == my_id) {
                    if w.go {
                        met = true;
                    }
                }
                if !met {
                    list.retain(|w| w.id != my_id);
                }
            }
        }
    }
    if met {
        // every participant holds its first lock and is about to request the second one
        r.rendezvous.lock().unwrap().push(json!({"point": k, "thread": name, "held": held, "wants": wants}));
        std::thread::sleep(Duration::from_millis(5));
    }
}

pub fn begin(points: Vec<Point>) {
    let r = rec();
    r.classes.lock().unwrap().clear();
    r.segments.lock().unwrap().clear();
    r.states.lock().unwrap().clear();
    r.rendezvous.lock().unwrap().clear();
    r.arrivals.lock().unwrap().clear();
    *r.arrived.lock().unwrap() = vec![Vec::new(); points.len()];
    *r.points.lock().unwrap() = points;
    r.released.store(false, Ordering::Relaxed);
    r.overflow.store(false, Ordering::Relaxed);
    r.enabled.store(true, Ordering::Relaxed);
}

/// stops steering (threads waiting at a point continue)
pub fn release() {
    rec().released.store(true, Ordering::Relaxed);
}

pub fn end() -> Value {
    let r = rec();
    r.enabled.store(false, Ordering::Relaxed);
    r.released.store(true, Ordering::Relaxed);
    let classes: HashMap<String, String> = r.classes.lock().unwrap().iter().map(|(k, v)| (k.to_string(), v.to_string())).collect();
    let segs: HashMap<String, Vec<Vec<Value>>> = r
        .segments
        .lock()
        .unwrap()
        .iter()
        .map(|(t, set)| (t.clone(), set.iter().map(|s| s.iter().map(|(o, l)| json!([o.to_string(), l])).collect()).collect()))
        .collect();
    let waiting: Vec<Value> = r
        .states
        .lock()
        .unwrap()
        .iter()
        .filter(|(_, s)| s.wants.is_some())
        .map(|(t, s)| json!({"thread": t, "held": s.held, "wants": s.wants}))
        .collect();
    json!({"classes": classes, "segments": segs, "waiting": waiting, "rendezvous": *r.rendezvous.lock().unwrap(), "arrivals": *r.arrivals.lock().unwrap(),
           "overflow": r.overflow.load(Ordering::Relaxed)})
}
