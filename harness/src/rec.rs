//! Recording tracer and recording actions: the observation layer of the harness.
//!
//! Every session thread logs into its own `SessLog` (found through a thread-local that the
//! tracer installs when `interpret` is entered), so that the order of records of one session is the
//! program order of its thread. Records are small JSON arrays, first element = kind:
//!   ["E", state]  ["X", state]            enter / exit callbacks
//!   ["M", tag, [args...], [cfg...]]       mark action (configuration snapshot as state names)
//!   ["G", k, value]                       guard action
//!   ["SE"] / ["SV"]                       selectEventlessTransitions / selectTransitions entered
//!   ["EN", [tids...]]                     enabledTransitions result of the selection
//!   ["MS"] / ["ME"]                       microstep bracket
//!   ["IR", ev] / ["XR", ev]               internal / external event received (ev = event record)
//!   ["IS", name]                          event_internal_send (done.state.*)
//!   ["IDLE"]                              about to block on the external queue
//!   ["CI"]                                cancelInvoke entered
//!   ["INIT"] / ["LOOP"] / ["END"]         interpret entered / mainEventLoop entered / interpret left
//! Each record gets a trailing monotonic timestamp in microseconds.

use rufsm::actions::Action;
use rufsm::datamodel::Data;
use rufsm::fsm::{Event, GlobalData, State};
use rufsm::tracer::{TraceMode, Tracer, TracerFactory};
use serde_json::{json, Value};
use std::cell::RefCell;
use std::collections::HashMap;
use std::sync::{Arc, Condvar, Mutex};
use std::time::{Duration, Instant};

pub struct SessLog {
    pub idx: usize,
    pub recs: Mutex<Vec<Value>>,
    pub names: Mutex<HashMap<u32, String>>,
    pub idle_count: Mutex<u64>,
    pub idle_cv: Condvar,
    pub ended: Mutex<bool>,
    pub session_id: Mutex<Option<u32>>,
    /// name of the thread that created this log (to find the log of an Fsm created inside the library)
    pub owner: Mutex<Option<String>>,
}

pub struct RunCtx {
    pub t0: Instant,
    pub sessions: Mutex<Vec<Arc<SessLog>>>,
    /// gates[k] = open?
    pub gates: Mutex<HashMap<i64, bool>>,
    pub gates_cv: Condvar,
    /// hold timeouts observed (tool problem, not a verdict)
    pub gate_timeouts: Mutex<Vec<i64>>,
    pub gate_timeout_ms: u64,
}

impl RunCtx {
    pub fn new() -> Arc<RunCtx> {
        Arc::new(RunCtx {
            t0: Instant::now(),
            sessions: Mutex::new(Vec::new()),
            gates: Mutex::new(HashMap::new()),
            gates_cv: Condvar::new(),
            gate_timeouts: Mutex::new(Vec::new()),
            gate_timeout_ms: 8000,
        })
    }

    pub fn new_session(self: &Arc<RunCtx>) -> Arc<SessLog> {
        let mut s = self.sessions.lock().unwrap();
        let l = Arc::new(SessLog {
            idx: s.len(),
            recs: Mutex::new(Vec::new()),
            names: Mutex::new(HashMap::new()),
            idle_count: Mutex::new(0),
            idle_cv: Condvar::new(),
            ended: Mutex::new(false),
            session_id: Mutex::new(None),
            owner: Mutex::new(std::thread::current().name().map(|x| x.to_string())),
        });
        s.push(l.clone());
        l
    }

    pub fn open_gate(&self, k: i64) {
        self.gates.lock().unwrap().insert(k, true);
        self.gates_cv.notify_all();
    }

    pub fn wait_gate(&self, k: i64) -> bool {
        let deadline = Instant::now() + Duration::from_millis(self.gate_timeout_ms);
        let mut g = self.gates.lock().unwrap();
        loop {
            if *g.get(&k).unwrap_or(&false) {
                return true;
            }
            let now = Instant::now();
            if now >= deadline {
                self.gate_timeouts.lock().unwrap().push(k);
                return false;
            }
            let (ng, _) = self.gates_cv.wait_timeout(g, deadline - now).unwrap();
            g = ng;
        }
    }

    pub fn us(&self) -> u64 {
        self.t0.elapsed().as_micros() as u64
    }
}

thread_local! {
    /// (run context, log of the session that runs on this thread)
    pub static CUR: RefCell<Option<(Arc<RunCtx>, Arc<SessLog>)>> = RefCell::new(None);
}

pub fn set_cur(ctx: &Arc<RunCtx>, log: &Arc<SessLog>) {
    CUR.with(|c| *c.borrow_mut() = Some((ctx.clone(), log.clone())));
}

pub fn clear_cur() {
    CUR.with(|c| *c.borrow_mut() = None);
}

fn push(ctx: &RunCtx, log: &SessLog, mut v: Vec<Value>) {
    v.push(json!(ctx.us()));
    log.recs.lock().unwrap().push(Value::Array(v));
}

pub fn data_to_json(d: &Data) -> Value {
    match d {
        Data::Integer(i) => json!(i),
        Data::Double(f) => {
            if f.is_finite() {
                json!(f)
            } else {
                json!({"_dbl": format!("{}", f)})
            }
        }
        Data::String(s) => json!(s),
        Data::Boolean(b) => json!(b),
        Data::Array(a) => Value::Array(a.iter().map(|x| match x.arc.try_lock() {
            Ok(g) => data_to_json(&g),
            Err(_) => json!({"_locked": 1}),
        }).collect()),
        Data::Map(m) => {
            let mut o = serde_json::Map::new();
            for (k, v) in m {
                o.insert(k.clone(), match v.arc.try_lock() {
                    Ok(g) => data_to_json(&g),
                    Err(_) => json!({"_locked": 1}),
                });
            }
            Value::Object(o)
        }
        Data::Null() => Value::Null,
        Data::Error(e) => json!({"_err": e}),
        Data::Source(s) => json!({"_src": s.source}),
        Data::None() => json!({"_none": 1}),
    }
}

pub fn event_to_json(e: &Event) -> Value {
    let data = match (&e.param_values, &e.content) {
        (Some(pv), _) => {
            let mut o = serde_json::Map::new();
            for p in pv {
                o.insert(p.name.clone(), data_to_json(&p.value));
            }
            Value::Object(o)
        }
        (None, Some(c)) => data_to_json(c),
        (None, None) => Value::Null,
    };
    json!({
        "name": e.name, "type": e.etype.name(), "sendid": e.sendid, "origin": e.origin,
        "origintype": e.origin_type, "invokeid": e.invoke_id, "data": data
    })
}

/// The recording tracer. One per Fsm.
#[derive(Clone)]
pub struct Rec {
    pub ctx: Arc<RunCtx>,
    pub log: Arc<SessLog>,
    /// wait for gate -1 before interpreting (lets the harness queue events first)
    pub start_gate: bool,
}

impl std::fmt::Debug for Rec {
    fn fmt(&self, f: &mut std::fmt::Formatter<'_>) -> std::fmt::Result {
        write!(f, "Rec#{}", self.log.idx)
    }
}

impl Rec {
    fn p(&self, v: Vec<Value>) {
        push(&self.ctx, &self.log, v);
    }
}

impl Tracer for Rec {
    fn trace(&self, _msg: &str) {}
    fn enter(&self) {}
    fn leave(&self) {}
    fn enable_trace(&mut self, _f: TraceMode) {}
    fn disable_trace(&mut self, _f: TraceMode) {}
    fn is_trace(&self, f: TraceMode) -> bool {
        !matches!(f, TraceMode::ARGUMENTS)
    }
    fn trace_mode(&self) -> TraceMode {
        TraceMode::ALL
    }
    fn enter_method(&self, what: &str) {
        match what {
            "interpret" => {
                set_cur(&self.ctx, &self.log);
                if self.start_gate {
                    self.ctx.wait_gate(-1);
                }
                self.p(vec![json!("INIT")]);
            }
            "mainEventLoop" => self.p(vec![json!("LOOP")]),
            "microstep" => self.p(vec![json!("MS")]),
            "selectEventlessTransitions" => self.p(vec![json!("SE")]),
            "selectTransitions" => self.p(vec![json!("SV")]),
            "cancelInvoke" => self.p(vec![json!("CI")]),
            "externalQueue.dequeue" => {
                self.p(vec![json!("IDLE")]);
                let mut c = self.log.idle_count.lock().unwrap();
                *c += 1;
                self.log.idle_cv.notify_all();
            }
            _ => {}
        }
    }
    fn exit_method(&self, what: &str) {
        match what {
            "microstep" => self.p(vec![json!("ME")]),
            "mainEventLoop" => self.p(vec![json!("LEND")]),
            "interpret" => {
                self.p(vec![json!("END")]);
                *self.log.ended.lock().unwrap() = true;
                self.log.idle_cv.notify_all();
                clear_cur();
            }
            _ => {}
        }
    }
    fn trace_enter_state(&self, s: &State) {
        self.log.names.lock().unwrap().insert(s.id, s.name.clone());
        self.p(vec![json!("E"), json!(s.name)]);
    }
    fn trace_exit_state(&self, s: &State) {
        self.p(vec![json!("X"), json!(s.name)]);
    }
    fn trace_argument(&self, _w: &str, _d: &dyn std::fmt::Display) {}
    fn trace_result(&self, w: &str, d: &dyn std::fmt::Display) {
        if w == "enabledTransitions" {
            let s = format!("{}", d);
            let ids: Vec<u32> = s
                .trim_matches(|c| c == '[' || c == ']')
                .split(',')
                .filter(|x| !x.trim().is_empty())
                .map(|x| x.trim().parse::<u32>().unwrap_or(0))
                .collect();
            self.p(vec![json!("EN"), json!(ids)]);
        }
    }
    fn event_internal_send(&self, e: &Event) {
        // payload of the event as text: "n=v;n2=v2" for parameters, "=v" for content
        let mut payload = String::new();
        if let Some(ps) = &e.param_values {
            payload = ps.iter().map(|p| format!("{}={}", p.name, p.value)).collect::<Vec<_>>().join(";");
        } else if let Some(c) = &e.content {
            payload = format!("={}", c);
        }
        self.p(vec![json!("IS"), json!(e.name), json!(payload)]);
    }
    fn event_internal_received(&self, e: &Event) {
        self.p(vec![json!("IR"), event_to_json(e)]);
    }
    fn event_external_received(&mut self, e: &Event) {
        self.p(vec![json!("XR"), event_to_json(e)]);
    }
}

/// Installs the verification hook of the library: hook events are logged into the log of the
/// session running on the calling thread (["HK", kind, detail]); internal_enqueued becomes ["IQ", name].
pub fn install_hook() {
    rufsm::verif::set_hook(Some(Box::new(|kind: &str, detail: &str| {
        CUR.with(|c| {
            if let Some((ctx, log)) = c.borrow().as_ref() {
                if kind == "internal_enqueued" {
                    push(ctx, log, vec![json!("IQ"), json!(detail)]);
                } else {
                    push(ctx, log, vec![json!("HK"), json!(kind), json!(detail)]);
                }
            }
        });
    })));
}

/// Factory used for every Fsm created inside the library (invoked children): the child's log is a
/// new session log of the run whose session thread performs the invoke.
pub struct RecFactory {}

impl TracerFactory for RecFactory {
    fn create(&mut self) -> Box<dyn Tracer> {
        let cur = CUR.with(|c| c.borrow().clone());
        match cur {
            Some((ctx, parent)) => {
                let log = ctx.new_session();
                // the creation of an Fsm on a session thread = this session starts a child (invoke): note it in the
                // parent's own log, at its position in the parent's program order
                push(&ctx, &parent, vec![json!("CH"), json!(log.idx)]);
                Box::new(Rec { ctx, log, start_gate: false })
            }
            None => {
                // Fsm created outside of any run (parsing in the harness thread): throw-away log.
                let ctx = RunCtx::new();
                let log = ctx.new_session();
                Box::new(Rec { ctx, log, start_gate: false })
            }
        }
    }
}

fn cfg_names(g: &GlobalData, log: &SessLog) -> Value {
    let names = log.names.lock().unwrap();
    Value::Array(
        g.configuration
            .iterator()
            .map(|id| match names.get(id) {
                Some(n) => json!(n),
                None => json!(format!("#{}", id)),
            })
            .collect(),
    )
}

/// mark(tag, args...) -> true. Records tag, evaluated arguments and the configuration snapshot.
#[derive(Clone)]
pub struct Mark {}
impl Action for Mark {
    fn execute(&self, args: &[Data], g: &GlobalData) -> Result<Data, String> {
        // an argument that failed to evaluate makes the whole call fail (like any expression error)
        for a in args {
            if let Data::Error(e) = a {
                return Err(e.clone());
            }
        }
        CUR.with(|c| {
            if let Some((ctx, log)) = c.borrow().as_ref() {
                {
                    let mut sid = log.session_id.lock().unwrap();
                    if sid.is_none() {
                        *sid = Some(g.session_id);
                    }
                }
                let tag = args.first().map(data_to_json).unwrap_or(Value::Null);
                let rest: Vec<Value> = args.iter().skip(1).map(data_to_json).collect();
                push(ctx, log, vec![json!("M"), tag, Value::Array(rest), cfg_names(g, log)]);
            }
        });
        Ok(Data::Boolean(true))
    }
    fn get_copy(&self) -> Box<dyn Action> {
        Box::new(self.clone())
    }
}

/// g(k, v) -> v. Records the value of guard k.
#[derive(Clone)]
pub struct Guard {}
impl Action for Guard {
    fn execute(&self, args: &[Data], _g: &GlobalData) -> Result<Data, String> {
        if args.len() != 2 {
            return Err("g(k, v) needs two arguments".to_string());
        }
        CUR.with(|c| {
            if let Some((ctx, log)) = c.borrow().as_ref() {
                push(ctx, log, vec![json!("G"), data_to_json(&args[0]), data_to_json(&args[1])]);
            }
        });
        match &args[1] {
            Data::Error(e) => Err(e.clone()),
            v => Ok(v.clone()),
        }
    }
    fn get_copy(&self) -> Box<dyn Action> {
        Box::new(self.clone())
    }
}

/// hold(k) -> true. Blocks the session thread until the harness opens gate k.
#[derive(Clone)]
pub struct Hold {}
impl Action for Hold {
    fn execute(&self, args: &[Data], _g: &GlobalData) -> Result<Data, String> {
        let k = match args.first() {
            Some(Data::Integer(i)) => *i,
            _ => 0,
        };
        let cur = CUR.with(|c| c.borrow().clone());
        if let Some((ctx, log)) = cur {
            push(&ctx, &log, vec![json!("H"), json!(k)]);
            ctx.wait_gate(k);
        }
        Ok(Data::Boolean(true))
    }
    fn get_copy(&self) -> Box<dyn Action> {
        Box::new(self.clone())
    }
}

/// now() -> microseconds since run start (for timing marks).
#[derive(Clone)]
pub struct Now {}
impl Action for Now {
    fn execute(&self, _args: &[Data], _g: &GlobalData) -> Result<Data, String> {
        let cur = CUR.with(|c| c.borrow().clone());
        Ok(Data::Integer(cur.map(|(ctx, _)| ctx.us() as i64).unwrap_or(0)))
    }
    fn get_copy(&self) -> Box<dyn Action> {
        Box::new(self.clone())
    }
}
